// Package c04: the validator key never signs conflicting votes or proposals, even
// across crashes and restarts (DESIGN.md §5 C04).
//
// The harness drives the real types.FilePV through hostile request sequences, keeps
// its own record of every signature that was RELEASED (a Sign* call that returned a
// nil error; the signature is verified with the public key over the sign-bytes of the
// returned object) and judges the history with three rules that are independent of
// the requests: no two releases at one (height, round, step) with different payloads,
// no release below an earlier release, and the record of a release is on disk (as seen
// by a fresh LoadFilePV) when the call returns. Crash points of selected requests are
// enumerated: in-process as the set of file states a crash inside the call can leave
// (lane b), and for real with strace as a syscall fault injector around a child
// process that executes the one request (lane a, strace.go).
package c04

import (
	"bytes"
	"encoding/json"
	"fmt"
	"io/ioutil"
	"os"
	"path/filepath"
	"reflect"
	"strconv"
	"strings"
	"syscall"
	"time"

	"github.com/lianxiangcloud/linkchain/libs/common"
	"github.com/lianxiangcloud/linkchain/libs/crypto"
	"github.com/lianxiangcloud/linkchain/types"

	"verif/h/internal/core"
	"verif/h/internal/rng"
)

const keyFileName = "priv_validator.json"

func init() {
	signerInit()
	core.Register(&core.Check{
		ID:        "C04",
		Level:     "fault_enumeration",
		Technique: "history monitor over the real FilePV: release-set oracle (conflict / regression / record-on-disk), with the crash points of selected requests enumerated (file states a crash can leave; real syscall faults and SIGKILLs injected with strace into a child that runs the request)",
		Rule: "case = one key's lifetime: <=40 vote/proposal signing requests (HRS walk with repeats, timestamp-only repeats, same-HRS other block/chain/POL, nil ids, step/round/height regressions, huge heights, odd timestamps) with reloads from disk at random points. " +
			"For selected requests that rewrite the key file the crash points are enumerated: state OLD (crash before the rename, stray temp file present; nothing released) and state NEW (crash after the rename, judged as the stricter 'signature already released' point); from each the key is reloaded and the interrupted request is re-issued with the same and with a different payload in both orders, followed by a random continuation, all under the same oracle. " +
			"quick enumerates ~2 writing requests per case this way, thorough every writing request. " +
			"One case in 32 additionally runs one writing request in a child process under strace with each syscall of WriteFileAtomic (openat, write, close, renameat, unlinkat) failing and, separately, the child SIGKILLed on entering it (plus kill before / exit after handing the signature out); the sequence continues from whatever that process left on disk. " +
			"non-trivial = at least one release, one reload after a release, one refused same-HRS conflicting request, one refused regression and one enumerated crash point; distinct by hash of the request sequence",
		Assumptions: []string{
			"crash = process death; the kernel keeps completed syscalls (power loss / lost directory entries after rename are out of reach)",
			"sign-bytes as produced by Vote.SignBytes/Proposal.SignBytes define the signed payload; ed25519 verification is trusted",
			"lane b assumes the key file is replaced by rename (checked per write by inode change; an observed in-place write switches to enumerating truncated states)",
			"SignVoteWithoutSave/SignData are outside the property's request alphabet: exercised in separate sub-run cases whose oracle hits are counted as diag_* only",
		},
		Cases:  cases,
		Run:    run,
		Floors: floors,
		Init:   core.QuietLogs,
		Extra: func(tier string, counters map[string]int64) map[string]interface{} {
			return map[string]interface{}{
				"enumeration": map[string]interface{}{
					"lane_b_per_enumerated_request": "both key-file states reachable through WriteFileAtomic (OLD + stray temp file, NEW) x both re-issue orders (same payload first / other payload first)",
					"lane_a_per_strace_request":     "12 points: openat/write/close/renameat x {error, SIGKILL on entry} (write: EIO and ENOSPC), unlinkat SIGKILL (= after the rename), SIGKILL before the signature is handed out, process exit right after handing it out; each verified in the strace log, unverified ones are counted as miscalibrated and not claimed",
					"requests_enumerated":           counters["crash_requests_enumerated"],
					"crash_points_enumerated":       counters["crash_points_enumerated"],
					"strace_fault_points_executed":  counters["strace_points_executed"],
				},
			}
		},
	})
}

func cases(tier string) int {
	if tier == "thorough" {
		return 12000
	}
	return 1200
}

// floors: about half of the minimum seen over seeds 1..5 in the quick tier, per case
// (the thorough tier enumerates every writing request, so it lies far above them).
func floors(tier string) map[string]int64 {
	perCase := map[string]float64{
		"requests":                        27,
		"disk_checks":                     27,
		"releases_fresh":                  10,
		"releases_replayed_original":      5.8,
		"replays_with_original_timestamp": 2.8,
		"refused_regression":              3.5,
		"refused_same_hrs":                7,
		"reloads":                         1.6,
		"crash_requests_enumerated":       0.9,
		"crash_points_enumerated":         1.8,
		"crash_branches":                  3.8,
		"save_failure_probes":             0.45,
		"strace_requests_enumerated":      0.014,
		"strace_points_executed":          0.16,
		"nosave_calls":                    0.4,
	}
	n := float64(cases(tier))
	out := map[string]int64{}
	for k, v := range perCase {
		out[k] = int64(v * n)
	}
	return out
}

// ---------------------------------------------------------------- requests

type req struct {
	API      string `json:"api"` // SignVote | SignProposal | SignVoteWithoutSave | SignData
	Chain    string `json:"chain"`
	H        uint64 `json:"h"`
	R        int    `json:"r"`
	VType    byte   `json:"vtype,omitempty"`
	Block    int    `json:"block"` // index into the case's block-id pool, -1 = nil id
	TSms     int64  `json:"ts_ms"`
	TSns     int    `json:"ts_ns,omitempty"`
	TSKind   string `json:"ts_kind,omitempty"` // "", zero, y9999, y10000, neg
	Zone     int    `json:"zone,omitempty"`
	POLRound int    `json:"pol_round,omitempty"`
	POLBlock int    `json:"pol_block,omitempty"`
	ValIdx   int    `json:"val_idx,omitempty"`
	Intent   string `json:"intent"`
}

func (q *req) step() int8 {
	if q.API == "SignProposal" {
		return 1
	}
	return int8(q.VType) + 1
}

func (q *req) time() time.Time {
	var t time.Time
	switch q.TSKind {
	case "zero":
		return time.Time{}
	case "y9999":
		t = time.Date(9999, 12, 30, 23, 59, 59, 0, time.UTC)
	case "y10000":
		t = time.Date(10000, 1, 1, 0, 0, 0, 0, time.UTC)
	case "neg":
		t = time.Date(-5, 3, 1, 0, 0, 0, 0, time.UTC)
	default:
		t = time.Unix(q.TSms/1000, (q.TSms%1000)*1e6+int64(q.TSns)).UTC()
	}
	if q.TSKind != "" {
		t = t.Add(time.Duration(q.TSms%100000) * time.Millisecond)
	}
	if q.Zone != 0 {
		t = t.In(time.FixedZone("z", q.Zone*3600))
	}
	return t
}

func blockOf(pool []types.BlockID, i int) types.BlockID {
	if i < 0 || i >= len(pool) {
		return types.BlockID{}
	}
	return pool[i]
}

func (q *req) vote(pool []types.BlockID, addr crypto.Address) *types.Vote {
	return &types.Vote{ValidatorAddress: addr, ValidatorIndex: q.ValIdx, ValidatorSize: 4, Height: q.H, Round: q.R,
		Timestamp: q.time(), Type: q.VType, BlockID: blockOf(pool, q.Block)}
}

func (q *req) proposal(pool []types.BlockID) *types.Proposal {
	return &types.Proposal{Type: types.ProposalTypeNormal, Height: q.H, Round: q.R, Timestamp: q.time(),
		BlockPartsHeader: blockOf(pool, q.Block).PartsHeader, POLRound: q.POLRound, POLBlockID: blockOf(pool, q.POLBlock)}
}

// ---------------------------------------------------------------- generator

type gen struct {
	r      *rng.R
	nosave bool
	// cursor: the last accepted request (nil before the first)
	last     *req
	accepted []*req
}

func (g *gen) clone(r *rng.R) *gen {
	n := &gen{r: r, nosave: g.nosave, last: g.last}
	n.accepted = append([]*req{}, g.accepted...)
	return n
}

const nBlocks = 6

func genPool(r *rng.R) []types.BlockID {
	pool := make([]types.BlockID, nBlocks)
	for i := range pool {
		pool[i] = types.BlockID{Hash: common.BytesToHash(r.Bytes(32)), PartsHeader: types.PartSetHeader{Total: r.Range(1, 5), Hash: r.Bytes(20)}}
	}
	// pool[3] differs from pool[0] only in the parts header total: a near miss
	pool[3] = types.BlockID{Hash: pool[0].Hash, PartsHeader: types.PartSetHeader{Total: pool[0].PartsHeader.Total + 1, Hash: pool[0].PartsHeader.Hash}}
	// half-nil ids: no block hash but a parts header; a block hash without parts (negative total)
	pool[4] = types.BlockID{PartsHeader: types.PartSetHeader{Total: pool[1].PartsHeader.Total + 7, Hash: pool[1].PartsHeader.Hash}}
	pool[5] = types.BlockID{Hash: pool[1].Hash, PartsHeader: types.PartSetHeader{Total: -1}}
	return pool
}

func (g *gen) freshTS(q *req) {
	r := g.r
	q.TSms = 1546300800000 + int64(r.Intn(1000000000))
	q.TSns = r.Intn(1000000)
	q.TSKind = ""
	q.Zone = 0
	if r.Chance(0.05) {
		q.TSKind = []string{"zero", "y9999", "y10000", "neg"}[r.Intn(4)]
	}
	if r.Chance(0.1) {
		q.Zone = r.Range(-11, 12)
	}
}

func (g *gen) randKind(q *req) {
	r := g.r
	switch r.Intn(3) {
	case 0:
		q.API, q.VType = "SignProposal", 0
	case 1:
		q.API, q.VType = "SignVote", types.VoteTypePrevote
	default:
		q.API, q.VType = "SignVote", types.VoteTypePrecommit
	}
}

func (g *gen) setStep(q *req, s int8) {
	switch s {
	case 1:
		q.API, q.VType = "SignProposal", 0
	case 2:
		q.API, q.VType = "SignVote", types.VoteTypePrevote
	default:
		q.API, q.VType = "SignVote", types.VoteTypePrecommit
	}
}

func (g *gen) randPayload(q *req) {
	r := g.r
	q.Block = r.Range(-1, nBlocks-1)
	q.POLRound, q.POLBlock = -1, -1
	if q.API == "SignProposal" {
		if q.Block < 0 && r.Chance(0.8) {
			q.Block = r.Intn(nBlocks)
		}
		if r.Chance(0.3) {
			q.POLRound = r.Range(0, 3)
			q.POLBlock = r.Intn(nBlocks)
		}
	}
}

// otherPayload changes the signed content of q (not its HRS, not only its timestamp).
func (g *gen) otherPayload(q *req) {
	r := g.r
	if q.API == "SignProposal" {
		switch r.Intn(3) {
		case 0:
			q.POLRound = q.POLRound + 1 + r.Intn(2)
		case 1:
			q.POLBlock = (q.POLBlock+1+r.Intn(nBlocks-1)+1)%(nBlocks+1) - 1
		default:
			// parts header of pool[0] and pool[3] differ in Total only
			q.Block = (q.Block+2+r.Intn(nBlocks))%(nBlocks+1) - 1
		}
		return
	}
	// votes: another block id (includes nil <-> block and the near-miss pair 0/3)
	q.Block = (q.Block+2+r.Intn(nBlocks))%(nBlocks+1) - 1
}

var chains = []string{"chain-A", "chain-B", "", "ch\"ain\u00e9\\ \u2028"}

var bigHeights = []uint64{1 << 32, 1<<53 + 1, 1 << 62, 1<<63 - 1, 1 << 63, 1<<64 - 2, 1<<64 - 1}

func (g *gen) next() *req {
	r := g.r
	if g.last == nil {
		q := &req{Chain: chains[0], H: uint64(r.Intn(4)), R: 0, Intent: "first"}
		if r.Chance(0.3) {
			q.R = r.Range(0, 2)
		}
		g.randKind(q)
		g.randPayload(q)
		g.freshTS(q)
		return g.api(q)
	}
	prev := *g.last // the last accepted request, untouched
	l := prev
	q := &l
	x := r.Intn(100)
	switch {
	case x < 18: // next step (or next round after a precommit)
		q.Intent = "advance-step"
		if q.step() < 3 {
			g.setStep(q, q.step()+1)
			if r.Chance(0.2) {
				g.setStep(q, 3)
			}
		} else {
			q.R++
			g.setStep(q, int8(r.Range(1, 3)))
		}
		g.randPayload(q)
		g.freshTS(q)
	case x < 27:
		q.Intent = "advance-round"
		q.R += r.Range(1, 3)
		g.setStep(q, int8(r.Range(1, 3)))
		g.randPayload(q)
		g.freshTS(q)
	case x < 39:
		q.Intent = "advance-height"
		if q.H == 1<<64-1 {
			q.R++
		} else {
			q.H += uint64(r.Range(1, 3))
			if q.H < prev.H { // wrapped
				q.H = 1<<64 - 1
			}
			q.R = 0
			if r.Chance(0.25) {
				q.R = r.Range(-1, 3)
			}
		}
		g.setStep(q, int8(r.Range(1, 3)))
		g.randPayload(q)
		g.freshTS(q)
	case x < 46:
		q.Intent = "repeat-exact"
	case x < 57:
		q.Intent = "repeat-timestamp-only"
		switch r.Intn(4) {
		case 0: // below the millisecond: identical sign-bytes
			q.TSns = (q.TSns + 1 + r.Intn(900000)) % 1000000
		case 1: // same instant, another zone
			q.Zone = (q.Zone+11+r.Range(1, 23))%24 - 11
		default:
			old := q.time()
			for i := 0; i < 4 && q.time().Equal(old); i++ {
				g.freshTS(q)
			}
		}
	case x < 70:
		q.Intent = "same-hrs-other-payload"
		g.otherPayload(q)
		if r.Bool() {
			g.freshTS(q)
		}
	case x < 73:
		q.Intent = "same-hrs-other-chain"
		for q.Chain == prev.Chain {
			q.Chain = chains[r.Intn(len(chains))]
		}
	case x < 76:
		q.Intent = "same-hrs-other-unsigned-field"
		q.ValIdx++
	case x < 82:
		q.Intent = "regress-step"
		if q.step() > 1 {
			g.setStep(q, int8(r.Range(1, int(q.step())-1)))
		} else {
			q.R--
			g.setStep(q, int8(r.Range(1, 3)))
			q.Intent = "regress-round"
		}
		g.randPayload(q)
		g.freshTS(q)
	case x < 87:
		q.Intent = "regress-round"
		q.R -= r.Range(1, 2)
		g.setStep(q, int8(r.Range(1, 3)))
		g.randPayload(q)
		g.freshTS(q)
	case x < 92:
		q.Intent = "regress-height"
		if q.H == 0 {
			q.R--
			q.Intent = "regress-round"
		} else {
			q.H -= uint64(r.Range(1, 2))
			if q.H > prev.H {
				q.H = 0
			}
			q.R = r.Range(0, prev.R+3)
		}
		g.setStep(q, int8(r.Range(1, 3)))
		g.randPayload(q)
		g.freshTS(q)
	case x < 96:
		q.Intent = "reissue-old"
		o := *g.accepted[r.Intn(len(g.accepted))]
		q = &o
		q.Intent = "reissue-old"
		if r.Bool() {
			g.otherPayload(q)
		}
		if r.Bool() {
			g.freshTS(q)
		}
	case x < 99:
		q.Intent = "jump"
		h := bigHeights[r.Intn(len(bigHeights))]
		if h <= q.H {
			if q.H == 1<<64-1 {
				q.R += 1 << 20
			} else {
				q.H = 1<<64 - 1
			}
		} else {
			q.H = h
		}
		if r.Chance(0.4) {
			q.R = []int{1<<31 - 1, 1 << 31, 1<<62 + 7, -1 << 40, -1}[r.Intn(5)]
		}
		g.setStep(q, int8(r.Range(1, 3)))
		g.randPayload(q)
		g.freshTS(q)
	default:
		q.Intent = "invalid-vote-type"
		q.API, q.VType = "SignVote", byte(r.Range(3, 5))
		q.R++
		g.freshTS(q)
	}
	return g.api(q)
}

// api picks the entry point for vote requests in the nosave sub-run.
func (g *gen) api(q *req) *req {
	if q.API == "SignVoteWithoutSave" || q.API == "SignData" {
		q.API = "SignVote"
	}
	if g.nosave && q.API == "SignVote" {
		x := g.r.Intn(100)
		if x < 35 {
			q.API = "SignVoteWithoutSave"
		} else if x < 42 {
			q.API = "SignData"
		}
	}
	return q
}

// ---------------------------------------------------------------- oracle

type hrs struct {
	H uint64
	R int64
	S int8
}

func (a hrs) less(b hrs) bool {
	if a.H != b.H {
		return a.H < b.H
	}
	if a.R != b.R {
		return a.R < b.R
	}
	return a.S < b.S
}
func (a hrs) String() string { return fmt.Sprintf("%d/%d/%d", a.H, a.R, a.S) }

type release struct {
	Seq  int    `json:"event"`
	At   hrs    `json:"hrs"`
	SB   string `json:"sign_bytes"`
	NoTS string `json:"-"`
	Sig  string `json:"sig"`
}

// parseSignBytes reads the canonical JSON independently of the repository's decoder.
func parseSignBytes(sb []byte) (at hrs, kind, noTS string, err error) {
	var m map[string]interface{}
	d := json.NewDecoder(bytes.NewReader(sb))
	d.UseNumber()
	if err = d.Decode(&m); err != nil {
		return
	}
	kind, _ = m["@type"].(string)
	hs, _ := m["height"].(string)
	rs, _ := m["round"].(string)
	if at.H, err = strconv.ParseUint(hs, 10, 64); err != nil {
		return
	}
	if at.R, err = strconv.ParseInt(rs, 10, 64); err != nil {
		return
	}
	switch kind {
	case "proposal":
		at.S = 1
	case "vote":
		n, ok := m["type"].(json.Number)
		if !ok {
			err = fmt.Errorf("vote without type")
			return
		}
		v, e := n.Int64()
		if e != nil {
			err = e
			return
		}
		at.S = int8(v) + 1
	default:
		err = fmt.Errorf("unknown @type %q", kind)
		return
	}
	if _, ok := m["timestamp"]; !ok {
		err = fmt.Errorf("no timestamp")
		return
	}
	delete(m, "timestamp")
	b, _ := json.Marshal(m)
	noTS = string(b)
	return
}

type event struct {
	Op  string `json:"op"`
	Req *req   `json:"req,omitempty"`
	Res string `json:"res,omitempty"`
	SB  string `json:"released_sign_bytes,omitempty"`
}

// timeline = one key file + one live FilePV + the oracle's memory of what was released.
type timeline struct {
	c     *core.Ctx
	name  string
	dir   string
	path  string
	pv    *types.FilePV
	pub   crypto.PubKey
	addr  crypto.Address
	pool  []types.BlockID
	g     *gen
	diag  bool // nosave sub-run: oracle hits are diagnostics
	rel   []release
	max   int // index into rel of the highest release, -1 if none
	hist  []event
	dead  bool
	loads int
	stats *caseStats
}

type caseStats struct {
	releases, reloadsAfterRelease, conflictsRefused, regressionsRefused, crashPoints int
}

func (t *timeline) report(key, detail string, extra interface{}) {
	if t.diag {
		// sub-run over the interface surface outside the property's alphabet: count, go on
		t.c.Count("diag_nosave:"+key, 1)
		t.c.Logf("[%s] diagnostic %s: %s", t.name, key, detail)
		return
	}
	t.dead = true
	h := t.hist
	if len(h) > 80 {
		h = h[len(h)-80:]
	}
	t.c.Violation(key, detail, map[string]interface{}{"timeline": t.name, "history": h, "releases": t.rel, "block_pool": poolStrings(t.pool), "extra": extra})
}

func poolStrings(pool []types.BlockID) []string {
	var s []string
	for _, b := range pool {
		s = append(s, fmt.Sprintf("%x:%d:%x", b.Hash[:], b.PartsHeader.Total, []byte(b.PartsHeader.Hash)))
	}
	return s
}

// fork makes an independent timeline on a copy of the given key-file state.
func (t *timeline) fork(name string, fileState []byte, relCount int, r *rng.R) *timeline {
	n := *t
	n.name = name
	n.dir = filepath.Join(t.c.Scratch, name)
	os.MkdirAll(n.dir, 0755)
	n.path = filepath.Join(n.dir, keyFileName)
	ioutil.WriteFile(n.path, fileState, 0600)
	n.rel = append([]release{}, t.rel[:relCount]...)
	n.max = -1
	for i := range n.rel {
		if n.max < 0 || !n.rel[i].At.less(n.rel[n.max].At) {
			n.max = i
		}
	}
	n.hist = append([]event{}, t.hist...)
	n.g = t.g.clone(r)
	n.pv = nil
	n.dead = false
	return &n
}

type diskRecord struct {
	At  hrs
	SB  []byte
	Sig []byte
}

// readDisk looks at the key file the way a restarting node does: a fresh LoadFilePV.
func (t *timeline) readDisk() (*types.FilePV, *diskRecord, bool) {
	b, err := ioutil.ReadFile(t.path)
	if err != nil {
		t.report("durability/key-file-missing", err.Error(), nil)
		return nil, nil, false
	}
	// LoadFilePV ends the process (cmn.Exit) on a file it cannot decode: try the bytes first.
	if perr := tryDecode(b); perr != "" {
		t.report("durability/key-file-unreadable", fmt.Sprintf("%d bytes on disk do not decode: %s", len(b), perr), map[string]interface{}{"file": string(b)})
		return nil, nil, false
	}
	var pv *types.FilePV
	if t.loads++; t.loads%2 == 0 {
		pv = types.LoadOrGenFilePV(t.path) // what node.go calls at start
	} else {
		pv = types.LoadFilePV(t.path)
	}
	d := &diskRecord{At: hrs{pv.LastHeight, int64(pv.LastRound), pv.LastStep}, SB: []byte(pv.LastSignBytes)}
	if pv.LastSignature != nil {
		d.Sig = sigBytes(pv.LastSignature)
	}
	return pv, d, true
}

func tryDecode(b []byte) (msg string) {
	defer func() {
		if r := recover(); r != nil {
			msg = fmt.Sprintf("panic: %v", r)
		}
	}()
	if _, err := types.LoadPVFromBytes(b); err != nil {
		return err.Error()
	}
	return ""
}

func sigBytes(s crypto.Signature) []byte {
	if e, ok := s.(crypto.SignatureEd25519); ok {
		return append([]byte{}, e[:]...)
	}
	return s.Bytes()
}

func (t *timeline) reload(op string) bool {
	pv, _, ok := t.readDisk()
	if !ok {
		return false
	}
	if !pv.GetPubKey().Equals(t.pub) {
		t.report("reload/key-changed", "the key file holds another key than the one this lifetime started with", nil)
		return false
	}
	t.pv = pv
	t.hist = append(t.hist, event{Op: op})
	if len(t.rel) > 0 {
		t.stats.reloadsAfterRelease++
	}
	return true
}

type outcome struct {
	ok       bool
	refused  string
	panicked string
	sb, sig  []byte
	wrote    bool
}

// call runs one request against the live FilePV, recovering panics as observations.
func (t *timeline) call(q *req) (outcome, interface{}) {
	return callPV(t.pv, t.pool, t.addr, q)
}

func callPV(pv *types.FilePV, pool []types.BlockID, addr crypto.Address, q *req) (out outcome, obj interface{}) {
	defer func() {
		if r := recover(); r != nil {
			out.ok = false
			out.panicked = fmt.Sprintf("%v", r)
		}
	}()
	switch q.API {
	case "SignProposal":
		p := q.proposal(pool)
		obj = p
		orig := *p
		err := pv.SignProposal(q.Chain, p)
		if err != nil {
			out.refused = err.Error()
			return
		}
		out.ok = true
		if p.Signature != nil {
			out.sig = sigBytes(p.Signature)
		}
		out.sb = p.SignBytes(q.Chain)
		chk := *p
		chk.Timestamp, chk.Signature = orig.Timestamp, orig.Signature
		if !reflect.DeepEqual(chk, orig) {
			out.refused = "rewritten"
		}
	case "SignData":
		v := q.vote(pool, addr)
		obj = v
		sb := v.SignBytes(q.Chain)
		sig, err := pv.SignData(sb)
		if err != nil {
			out.refused = err.Error()
			return
		}
		out.ok, out.sb, out.sig = true, sb, sig
		if s, e := crypto.SignatureFromBytes(sig); e == nil {
			out.sig = sigBytes(s)
		}
	default:
		v := q.vote(pool, addr)
		obj = v
		orig := *v
		var err error
		if q.API == "SignVoteWithoutSave" {
			err = pv.SignVoteWithoutSave(q.Chain, v)
		} else {
			err = pv.SignVote(q.Chain, v)
		}
		if err != nil {
			out.refused = err.Error()
			return
		}
		out.ok = true
		if v.Signature != nil {
			out.sig = sigBytes(v.Signature)
		}
		out.sb = v.SignBytes(q.Chain)
		chk := *v
		chk.Timestamp, chk.Signature = orig.Timestamp, orig.Signature
		if !reflect.DeepEqual(chk, orig) {
			out.refused = "rewritten"
		}
	}
	return
}

func fileID(path string) (ino uint64, ok bool) {
	var st syscall.Stat_t
	if err := syscall.Stat(path, &st); err != nil {
		return 0, false
	}
	return st.Ino, true
}

// sign issues one request on the live object and judges the result.
func (t *timeline) sign(q *req) outcome {
	c := t.c
	before, _ := ioutil.ReadFile(t.path)
	ino0, _ := fileID(t.path)
	stray0 := len(strayFiles(t.dir))
	out, _ := t.call(q)
	after, _ := ioutil.ReadFile(t.path)
	ino1, _ := fileID(t.path)
	out.wrote = !bytes.Equal(before, after)
	c.Count("requests", 1)
	c.Count("req:"+q.Intent, 1)
	ev := event{Op: "sign", Req: q}
	switch {
	case out.panicked != "":
		ev.Res = "panic: " + out.panicked
		c.Count("sign_panics", 1)
		c.Count("sign_panic:"+panicClass(out.panicked), 1)
	case !out.ok:
		ev.Res = "refused: " + out.refused
		c.Count("refused", 1)
	default:
		ev.Res = "ok"
		ev.SB = string(out.sb)
	}
	t.hist = append(t.hist, ev)
	if c.Verbose {
		c.Logf("[%s] %-28s %s %s h=%d r=%d s=%d block=%d ts=%s -> %s", t.name, q.Intent, q.API, q.Chain, q.H, q.R, q.step(), q.Block, q.time().Format(time.RFC3339Nano), ev.Res)
	}
	if out.wrote {
		c.Count("key_file_rewrites", 1)
		if ino0 == ino1 {
			c.Count("in_place_writes_observed", 1)
			t.inPlaceStates(before, after)
			if t.dead {
				return out
			}
		}
	}
	if left := len(strayFiles(t.dir)); left > stray0 {
		c.Count("temp_files_left_behind", int64(left-stray0))
	}
	added := t.judge(q, out)
	if t.dead {
		return out
	}
	t.checkDisk(q, out, added)
	return out
}

// judge applies the release rules to the outcome of one request.
// It returns true when the outcome was a release that was added to the record.
func (t *timeline) judge(q *req, out outcome) bool {
	c := t.c
	want := hrs{q.H, int64(q.R), q.step()}
	if out.ok {
		if out.refused == "rewritten" {
			t.report("release/request-rewritten", "the returned object differs from the request in more than timestamp and signature", nil)
			return false
		}
		if out.sig == nil {
			t.report("release/nil-signature", "Sign* returned nil error but left no signature in the object", nil)
			return false
		}
		sig := crypto.SignatureEd25519FromBytes(out.sig)
		if !t.pub.VerifyBytes(out.sb, sig) {
			t.report("release/signature-does-not-verify", fmt.Sprintf("the returned signature does not verify over the sign-bytes of the returned object %s", out.sb), nil)
			return false
		}
		at, _, noTS, err := parseSignBytes(out.sb)
		if err != nil {
			t.report("release/sign-bytes-unparseable", err.Error(), string(out.sb))
			return false
		}
		if at != want {
			t.report("release/payload-hrs-differs-from-request", fmt.Sprintf("requested %v, signed bytes say %v", want, at), nil)
			return false
		}
		c.Count("releases", 1)
		t.stats.releases++
		nr := release{Seq: len(t.hist) - 1, At: at, SB: string(out.sb), NoTS: noTS, Sig: fmt.Sprintf("%x", out.sig)}
		fresh := true
		for i := range t.rel {
			o := &t.rel[i]
			if o.At != at {
				continue
			}
			if o.NoTS != noTS {
				t.rel = append(t.rel, nr)
				t.report("conflict/same-hrs-different-payload", fmt.Sprintf("two released signatures at %v: %s and %s", at, o.SB, nr.SB), nil)
				return false
			}
			if o.SB != nr.SB {
				t.rel = append(t.rel, nr)
				t.report("conflict/same-hrs-second-timestamp-signed", fmt.Sprintf("two released signatures at %v over payloads that differ in the timestamp: %s and %s", at, o.SB, nr.SB), nil)
				return false
			}
			fresh = false
			if o.Sig != nr.Sig {
				c.Count("replays_with_other_signature_bytes", 1)
			}
		}
		if fresh {
			c.Count("releases_fresh", 1)
		} else {
			c.Count("releases_replayed_original", 1)
			if q.time().UTC().Format(types.TimeFormat) != mustTS(out.sb) {
				c.Count("replays_with_original_timestamp", 1)
			}
		}
		if t.max >= 0 && at.less(t.rel[t.max].At) {
			hi := t.rel[t.max]
			t.rel = append(t.rel, nr)
			cls := "step"
			if at.H != hi.At.H {
				cls = "height"
			} else if at.R != hi.At.R {
				cls = "round"
			}
			t.report("regression/"+cls+"-lower-than-released", fmt.Sprintf("released %v after %v had been released", at, hi.At), nil)
			return false
		}
		t.rel = append(t.rel, nr)
		if t.max < 0 || !at.less(t.rel[t.max].At) {
			t.max = len(t.rel) - 1
		}
		if t.g != nil {
			cp := *q
			t.g.last = &cp
			t.g.accepted = append(t.g.accepted, &cp)
		}
		return true
	} else {
		// classify what was refused, by the oracle's own record
		if t.max >= 0 {
			hi := t.rel[t.max].At
			if want.less(hi) {
				c.Count("refused_regression", 1)
				t.stats.regressionsRefused++
			} else if want == hi {
				c.Count("refused_same_hrs", 1)
				t.stats.conflictsRefused++
			} else if out.panicked == "" {
				c.Count("refused_above_newest_release", 1)
			}
		}
	}
	return false
}

// checkDisk reads the record the way a restarting node would and compares it with the releases.
func (t *timeline) checkDisk(q *req, out outcome, added bool) {
	c := t.c
	// the record as a restarting node would read it
	if q.API == "SignVoteWithoutSave" || q.API == "SignData" {
		// by construction nothing is persisted; what this means is judged by the release rules above
		c.Count("nosave_calls", 1)
	}
	_, d, ok := t.readDisk()
	if !ok {
		return
	}
	c.Count("disk_checks", 1)
	if added {
		r := t.rel[len(t.rel)-1]
		switch {
		case d.At != r.At:
			t.report("durability/release-without-record/hrs", fmt.Sprintf("released %v but the key file says %v", r.At, d.At), nil)
		case string(d.SB) != r.SB:
			t.report("durability/release-without-record/sign-bytes", fmt.Sprintf("released %s at %v but the key file holds %s", r.SB, r.At, d.SB), nil)
		case fmt.Sprintf("%x", d.Sig) != r.Sig:
			t.report("durability/release-without-record/signature", fmt.Sprintf("released signature %s at %v but the key file holds %x", r.Sig, r.At, d.Sig), nil)
		}
	} else if t.max >= 0 {
		hi := t.rel[t.max]
		if d.At.less(hi.At) {
			t.report("durability/record-behind-newest-release", fmt.Sprintf("after a refused request the key file says %v, newest release is %v", d.At, hi.At), nil)
		} else if d.At == hi.At && string(d.SB) != hi.SB {
			t.report("durability/record-differs-from-newest-release", fmt.Sprintf("key file holds %s, released was %s", d.SB, hi.SB), nil)
		}
	}
}

func panicClass(msg string) string {
	switch {
	case strings.Contains(msg, "Unknown vote type"):
		return "unknown-vote-type"
	case strings.Contains(msg, "parsing time"):
		return "stored-timestamp-unparseable"
	case strings.Contains(msg, "no such file"):
		return "save-failed"
	}
	return "other"
}

func mustTS(sb []byte) string {
	var m map[string]interface{}
	json.Unmarshal(sb, &m)
	s, _ := m["timestamp"].(string)
	return s
}

func strayFiles(dir string) []string {
	var out []string
	fis, _ := ioutil.ReadDir(dir)
	for _, fi := range fis {
		if fi.Name() != keyFileName {
			out = append(out, fi.Name())
		}
	}
	return out
}

// inPlaceStates: the key file kept its inode while its content changed, i.e. it was
// rewritten in place; a crash inside that write leaves a truncated file.
func (t *timeline) inPlaceStates(before, after []byte) {
	for _, k := range []int{0, len(after) / 2, len(after) - 1} {
		if k < 0 {
			continue
		}
		t.c.Count("in_place_states_tried", 1)
		if msg := tryDecode(after[:k]); msg != "" {
			t.report("crash/in-place-rewrite-loses-record", fmt.Sprintf("the key file is rewritten in place (same inode); a crash after %d of %d bytes leaves a file a restarting node cannot read: %s", k, len(after), msg), nil)
			return
		}
	}
}

// ---------------------------------------------------------------- crash points (lane b)

// variants of the interrupted request for the re-issue after the crash
func (t *timeline) reissue(q *req, other bool, r *rng.R) *req {
	n := *q
	g := &gen{r: r}
	if other {
		g.otherPayload(&n)
		n.Intent = "after-crash-other-payload"
		if r.Bool() {
			g.freshTS(&n)
		}
	} else {
		n.Intent = "after-crash-same-payload"
		if r.Chance(0.7) {
			g.freshTS(&n)
		}
	}
	return &n
}

func (t *timeline) enumerateCrash(q *req, oldState, newState []byte, relBefore int, released bool, r *rng.R, tag string) {
	c := t.c
	c.Count("crash_requests_enumerated", 1)
	type st struct {
		name  string
		bytes []byte
		rel   int
	}
	relAfter := relBefore
	if released {
		relAfter = len(t.rel)
	}
	states := []st{
		{"old", oldState, relBefore}, // crash before the rename: the caller never got a signature
		{"new", newState, relAfter},  // crash after the rename; judged as "the signature is already out"
	}
	for _, s := range states {
		c.Count("crash_points_enumerated", 1)
		c.Count("crash_state_"+s.name, 1)
		t.stats.crashPoints++
		for order := 0; order < 2; order++ {
			b := t.fork(fmt.Sprintf("%s-crash-%s-%d", tag, s.name, order), s.bytes, s.rel, r.Split())
			if s.name == "old" {
				b.hist = b.hist[:len(b.hist)-1] // the interrupted call never returned
				b.hist = append(b.hist, event{Op: "crash-before-rename", Req: q})
				// what a crash between create and rename leaves behind
				n := len(newState)
				if order == 1 {
					n = r.Intn(n + 1)
				}
				ioutil.WriteFile(filepath.Join(b.dir, "write-file-atomic-"+fmt.Sprintf("%x", r.Bytes(8))), newState[:n], 0600)
				b.forgetLastAccepted(released)
			} else {
				b.hist = append(b.hist, event{Op: "crash-after-rename"})
			}
			b.continueAfterCrash(q, order, s.name, r)
			os.RemoveAll(b.dir)
		}
	}
}

// forgetLastAccepted: the generator of a branch in which the interrupted request never
// returned must not believe that request was accepted.
func (b *timeline) forgetLastAccepted(released bool) {
	if len(b.g.accepted) > 0 && released {
		b.g.accepted = b.g.accepted[:len(b.g.accepted)-1]
		if len(b.g.accepted) > 0 {
			b.g.last = b.g.accepted[len(b.g.accepted)-1]
		} else {
			b.g.last = nil
		}
	}
}

// continueAfterCrash: a new process loads the key file, the interrupted request comes
// again with the same and with another payload (order 0: same first), then a random continuation.
func (b *timeline) continueAfterCrash(q *req, order int, state string, r *rng.R) {
	c := b.c
	if !b.reload("reload-after-crash") {
		return
	}
	c.Count("crash_branches", 1)
	first := b.reissue(q, order == 1, b.g.r)
	second := b.reissue(q, order == 0, b.g.r)
	o1 := b.sign(first)
	if b.dead {
		return
	}
	if o1.ok {
		c.Count(fmt.Sprintf("after_crash_%s_first_reissue_order%d_signed", state, order), 1)
	} else {
		c.Count(fmt.Sprintf("after_crash_%s_first_reissue_order%d_refused", state, order), 1)
	}
	b.sign(second)
	if b.dead {
		return
	}
	if r.Chance(0.5) {
		if !b.reload("reload") {
			return
		}
	}
	for k := r.Range(0, 4); k > 0 && !b.dead; k-- {
		if b.g.last == nil {
			break
		}
		b.sign(b.g.next())
	}
}

// ioErrorProbe: the save fails (the directory is gone). Whatever the caller's object
// holds when the panic surfaces was handed out before the record was durable.
func (t *timeline) ioErrorProbe(q *req, oldState []byte, relBefore int, r *rng.R, tag string) {
	c := t.c
	b := t.fork(tag+"-saveerr", oldState, relBefore, r.Split())
	b.hist = b.hist[:len(b.hist)-1]
	if !b.reload("reload") {
		return
	}
	os.RemoveAll(b.dir)
	out, obj := b.call(q)
	c.Count("save_failure_probes", 1)
	b.hist = append(b.hist, event{Op: "sign-with-failing-save", Req: q, Res: fmt.Sprintf("ok=%v refused=%q panic=%q", out.ok, out.refused, out.panicked)})
	var sig crypto.Signature
	var sb []byte
	switch o := obj.(type) {
	case *types.Vote:
		if o != nil {
			sig, sb = o.Signature, o.SignBytes(q.Chain)
		}
	case *types.Proposal:
		if o != nil {
			sig, sb = o.Signature, o.SignBytes(q.Chain)
		}
	}
	if out.panicked != "" {
		c.Count("save_failure_panics", 1)
	}
	if sig != nil && t.pub.VerifyBytes(sb, sig) {
		b.report("durability/signature-handed-out-before-record-durable", fmt.Sprintf("the save failed (ok=%v panic=%q) yet the caller's object already holds a valid signature over %s", out.ok, out.panicked, sb), nil)
		return
	}
	// diagnostic, outside the quantifier (no crash): the process survives the failed save
	// (the consensus receive routine recovers panics) and the same object is asked again.
	os.MkdirAll(b.dir, 0755)
	ioutil.WriteFile(b.path, oldState, 0600)
	out2, _ := b.call(q)
	if out2.ok {
		_, d, ok := b.readDisk()
		if ok && string(d.SB) != string(out2.sb) {
			c.Count("diag_after_failed_save_same_object_replays_unsaved_signature", 1)
		}
	}
	os.RemoveAll(b.dir)
}

// ---------------------------------------------------------------- case

func run(c *core.Ctx) {
	if strings.HasPrefix(c.Tier, signerTierPrefix) {
		signerRun(c)
		return
	}
	r := c.Rng
	nosave := c.Index%8 == 7
	straceCase := !nosave && c.Index%32 == 3
	pool := genPool(r)
	dir := filepath.Join(c.Scratch, "main")
	os.MkdirAll(dir, 0755)
	path := filepath.Join(dir, keyFileName)

	// a new key the way a node gets one, then a deterministic key so that the case is a function of the seed
	pv := types.LoadOrGenFilePV(path)
	priv := crypto.GenPrivKeyEd25519FromSecret(r.Bytes(32))
	pv.UpdatePrikey(priv)
	pv.Save()
	pv = types.LoadOrGenFilePV(path)
	if !pv.GetPubKey().Equals(priv.PubKey()) {
		c.Inconclusive("could not install the deterministic key")
		return
	}
	stats := &caseStats{}
	t := &timeline{c: c, name: "main", dir: dir, path: path, pv: pv, pub: priv.PubKey(), addr: priv.PubKey().Address(), pool: pool,
		g: &gen{r: r.Split(), nosave: nosave}, diag: nosave, max: -1, stats: stats}
	if nosave {
		c.Count("nosave_subrun_cases", 1)
	}

	n := r.Range(8, 40)
	perReq := 3.0 / float64(n) * 1.6
	if c.Tier == "thorough" {
		perReq = 1
	}
	straceAt := -1
	if straceCase {
		straceAt = r.Intn(n)
	}
	cr := r.Split()
	var seq []string
	for i := 0; i < n && !t.dead; i++ {
		if i > 0 && r.Chance(0.15) {
			if !t.reload("reload") {
				break
			}
			c.Count("reloads", 1)
		}
		q := t.g.next()
		seq = append(seq, fmt.Sprintf("%s/%s/%d/%d/%d/%d/%d", q.API, q.Chain, q.H, q.R, q.VType, q.Block, q.TSms))
		enumerate := !nosave && cr.Chance(perReq)
		oldState, _ := ioutil.ReadFile(path)
		relBefore := len(t.rel)
		if straceAt >= 0 && i >= straceAt && (strings.HasPrefix(q.Intent, "advance") || q.Intent == "first" || q.Intent == "jump") {
			straceAt = -1
			straceLane(t, q, oldState, cr.Split(), fmt.Sprintf("r%d", i))
			if t.dead {
				break
			}
		}
		out := t.sign(q)
		if t.dead {
			break
		}
		if enumerate && out.wrote {
			newState, _ := ioutil.ReadFile(path)
			t.enumerateCrash(q, oldState, newState, relBefore, out.ok, cr, fmt.Sprintf("r%d", i))
			if cr.Chance(0.5) {
				t.ioErrorProbe(q, oldState, relBefore, cr, fmt.Sprintf("r%d", i))
			}
		}
	}

	if stats.releases > 0 && stats.reloadsAfterRelease > 0 && stats.conflictsRefused > 0 && stats.regressionsRefused > 0 && stats.crashPoints > 0 {
		h := crypto.Keccak256([]byte(strings.Join(seq, "|")))
		c.Nontrivial(fmt.Sprintf("%x", h[:8]))
	}
	if c.Index%100 == 0 {
		var s []string
		for i, e := range t.hist {
			if i >= 14 {
				break
			}
			if e.Req == nil {
				s = append(s, e.Op)
				continue
			}
			q := e.Req
			s = append(s, fmt.Sprintf("%s %s %s %d/%d/%d block=%d pol=%d/%d ts=%s -> %s", q.Intent, q.API, q.Chain, q.H, q.R, q.step(), q.Block, q.POLRound, q.POLBlock, q.time().Format(time.RFC3339Nano), e.Res))
		}
		c.Sample(map[string]interface{}{"requests": n, "nosave_subrun": nosave, "history_prefix": s, "releases": len(t.rel), "crash_points": stats.crashPoints})
	}
}
