package c04

// Lane a: real crash points. The request of one position of a sequence is executed by a
// child process (this binary, `--child C04 signer=<dir> ...`) under strace used as a
// syscall fault injector: for every syscall WriteFileAtomic issues on the temp file and
// the key file (openat, write, close, renameat, unlinkat) the call is made to fail and,
// separately, the child is SIGKILLed on entering it. What the child managed to hand out
// (an "outbox" file it writes only after Sign* returned nil) is the release; the key
// directory it left behind is the crash state from which the sequence continues.

import (
	"bufio"
	"context"
	"encoding/hex"
	"encoding/json"
	"fmt"
	"io/ioutil"
	"os"
	"os/exec"
	"path/filepath"
	"regexp"
	"runtime"
	"strings"
	"time"

	"github.com/lianxiangcloud/linkchain/libs/common"
	"github.com/lianxiangcloud/linkchain/types"

	"verif/h/internal/core"
	"verif/h/internal/rng"
)

const signerTierPrefix = "signer="
const signerEnv = "C04_SIGNER"

// signerInit pins the main goroutine to the main thread in the strace child, so that
// every syscall of the request is issued by one thread (strace counts `when=` per thread).
func signerInit() {
	if os.Getenv(signerEnv) != "" {
		runtime.LockOSThread()
	}
}

type poolEntry struct {
	Hash  string `json:"hash"`
	Total int    `json:"total"`
	PHash string `json:"phash"`
}

type signerRequest struct {
	Req  *req        `json:"req"`
	Pool []poolEntry `json:"pool"`
}

type outbox struct {
	SB  string `json:"sign_bytes"`
	Sig string `json:"sig"`
}

func encodePool(pool []types.BlockID) []poolEntry {
	var out []poolEntry
	for _, b := range pool {
		out = append(out, poolEntry{hex.EncodeToString(b.Hash[:]), b.PartsHeader.Total, hex.EncodeToString(b.PartsHeader.Hash)})
	}
	return out
}

func decodePool(in []poolEntry) []types.BlockID {
	var out []types.BlockID
	for _, e := range in {
		h, _ := hex.DecodeString(e.Hash)
		ph, _ := hex.DecodeString(e.PHash)
		out = append(out, types.BlockID{Hash: common.BytesToHash(h), PartsHeader: types.PartSetHeader{Total: e.Total, Hash: ph}})
	}
	return out
}

// signerRun is the body of the child: load the key, run the one request, and hand the
// signature out (write the outbox) only after the call returned without error.
func signerRun(c *core.Ctx) {
	sdir := strings.TrimPrefix(c.Tier, signerTierPrefix)
	b, err := ioutil.ReadFile(filepath.Join(sdir, "request.json"))
	if err != nil {
		panic(err)
	}
	var sr signerRequest
	if err := json.Unmarshal(b, &sr); err != nil {
		panic(err)
	}
	pool := decodePool(sr.Pool)
	pv := types.LoadFilePV(filepath.Join(sdir, "key", keyFileName))
	out, _ := callPV(pv, pool, pv.GetAddress(), sr.Req)
	if out.ok && out.refused == "" && out.sig != nil {
		ob, _ := json.Marshal(outbox{SB: hex.EncodeToString(out.sb), Sig: hex.EncodeToString(out.sig)})
		ioutil.WriteFile(filepath.Join(sdir, "outbox.json"), ob, 0600)
		return
	}
	note := fmt.Sprintf("ok=%v refused=%q panic=%q", out.ok, out.refused, out.panicked)
	ioutil.WriteFile(filepath.Join(sdir, "noresult.txt"), []byte(note), 0600)
}

type calib struct {
	ord    map[string]int // ordinal (1-based) of the temp/key file's syscall among the main thread's calls of that name
	outbox int            // ordinal of the openat of the outbox
}

var sysLine = regexp.MustCompile(`^(\d+)\s+(\w+)\(`)

func parseCalibration(trace string) (*calib, string) {
	f, err := os.Open(trace)
	if err != nil {
		return nil, err.Error()
	}
	defer f.Close()
	type ln struct {
		pid, name, text string
	}
	var lines []ln
	sc := bufio.NewScanner(f)
	sc.Buffer(make([]byte, 1<<20), 1<<26)
	mainPid := ""
	for sc.Scan() {
		m := sysLine.FindStringSubmatch(sc.Text())
		if m == nil {
			continue
		}
		lines = append(lines, ln{m[1], m[2], sc.Text()})
		if mainPid == "" && m[2] == "openat" && strings.Contains(sc.Text(), "write-file-atomic-") {
			mainPid = m[1]
		}
	}
	if mainPid == "" {
		return nil, "the request did not create a temp file"
	}
	if len(lines) == 0 || lines[0].pid != mainPid {
		return nil, "the temp file was not written by the main thread"
	}
	cal := &calib{ord: map[string]int{}}
	count := map[string]int{}
	for _, l := range lines {
		if l.pid != mainPid {
			continue
		}
		count[l.name]++
		if strings.Contains(l.text, "write-file-atomic-") {
			if _, seen := cal.ord[l.name]; !seen {
				cal.ord[l.name] = count[l.name]
			}
		}
		if l.name == "openat" && strings.Contains(l.text, "outbox.json") && cal.outbox == 0 {
			cal.outbox = count[l.name]
		}
	}
	for _, n := range []string{"openat", "write", "close", "renameat", "unlinkat"} {
		if cal.ord[n] == 0 {
			return nil, "no " + n + " on the temp file in the calibration trace"
		}
	}
	return cal, ""
}

type faultPoint struct {
	Sys    string `json:"syscall"`
	When   int    `json:"when"`
	Fault  string `json:"fault"`
	Target string `json:"-"` // substring the tampered trace line must contain
}

func (p faultPoint) String() string { return fmt.Sprintf("%s:%s:when=%d", p.Sys, p.Fault, p.When) }

func faultPoints(cal *calib) []faultPoint {
	var pts []faultPoint
	add := func(sys string, faults ...string) {
		for _, f := range faults {
			pts = append(pts, faultPoint{sys, cal.ord[sys], f, "write-file-atomic-"})
		}
	}
	add("openat", "error=EIO", "signal=KILL")
	// (no retval= faults: strace then skips the call but reports bytes as written, a lying kernel, not a crash)
	add("write", "error=EIO", "error=ENOSPC", "signal=KILL")
	add("close", "error=EIO", "signal=KILL")
	add("renameat", "error=EIO", "signal=KILL")
	add("unlinkat", "signal=KILL")
	if cal.outbox > 0 {
		pts = append(pts, faultPoint{"openat", cal.outbox, "signal=KILL", "outbox.json"})
	}
	return pts
}

// runSigner executes the request in a child under strace. inject == "" is the calibration run.
func runSigner(c *core.Ctx, sdir string, inject string) (trace string, err error) {
	exe, e := os.Executable()
	if e != nil {
		return "", e
	}
	os.RemoveAll(filepath.Join(sdir, "run"))
	os.MkdirAll(filepath.Join(sdir, "run"), 0755)
	os.Remove(filepath.Join(sdir, "outbox.json"))
	os.Remove(filepath.Join(sdir, "noresult.txt"))
	trace = filepath.Join(sdir, "trace.txt")
	os.Remove(trace)
	args := []string{"-f", "-y", "-s", "16", "-o", trace, "-e", "trace=openat,write,close,renameat,unlinkat"}
	if inject != "" {
		args = append(args, "-e", "inject="+inject)
	}
	args = append(args, exe, "--child", "C04", signerTierPrefix+sdir, "1", "0", "1", filepath.Join(sdir, "run", "out"))
	ctx, cancel := context.WithTimeout(context.Background(), 120*time.Second)
	defer cancel()
	cmd := exec.CommandContext(ctx, "strace", args...)
	cmd.Env = append(os.Environ(), signerEnv+"=1", "GOMAXPROCS=2")
	cmd.Stdout, cmd.Stderr = nil, nil
	runErr := cmd.Run()
	if ctx.Err() != nil {
		return trace, fmt.Errorf("strace child timed out")
	}
	if _, e := os.Stat(trace); e != nil {
		return trace, fmt.Errorf("strace produced no trace (%v)", runErr)
	}
	return trace, nil
}

// verifyInjection confirms from the strace log that the fault hit the intended call.
func verifyInjection(trace string, p faultPoint) (bool, string) {
	b, err := ioutil.ReadFile(trace)
	if err != nil {
		return false, err.Error()
	}
	lines := strings.Split(string(b), "\n")
	if strings.HasPrefix(p.Fault, "signal=") {
		// the last syscall line of the main thread before the kill must be the target
		mainPid := ""
		last := ""
		killed := false
		for _, l := range lines {
			m := sysLine.FindStringSubmatch(l)
			if m != nil {
				if mainPid == "" {
					mainPid = m[1]
				}
				if m[1] == mainPid {
					last = l
				}
			}
			if strings.Contains(l, "+++ killed by SIGKILL +++") {
				killed = true
			}
		}
		if !killed {
			return false, "no SIGKILL in the trace"
		}
		m := sysLine.FindStringSubmatch(last)
		if m == nil || m[2] != p.Sys || !strings.Contains(last, p.Target) {
			return false, "kill hit another call: " + last
		}
		return true, ""
	}
	n := 0
	okLine := false
	for _, l := range lines {
		if strings.Contains(l, "(INJECTED)") {
			n++
			m := sysLine.FindStringSubmatch(l)
			if m != nil && m[2] == p.Sys && strings.Contains(l, p.Target) {
				okLine = true
			}
		}
	}
	if n != 1 || !okLine {
		return false, fmt.Sprintf("%d tampered calls, target hit=%v", n, okLine)
	}
	return true, ""
}

func copyFile(dst, src string) error {
	b, err := ioutil.ReadFile(src)
	if err != nil {
		return err
	}
	return ioutil.WriteFile(dst, b, 0600)
}

// forkAt makes an independent timeline on an existing key directory.
func (t *timeline) forkAt(name, dir string, relCount int, r *rng.R) *timeline {
	n := t.fork(name, nil, relCount, r)
	os.RemoveAll(n.dir)
	n.dir = dir
	n.path = filepath.Join(dir, keyFileName)
	return n
}

// straceLane runs request q (about to be issued on the main timeline, whose key file
// currently holds oldState) through every fault point in a child process.
func straceLane(t *timeline, q *req, oldState []byte, r *rng.R, tag string) {
	c := t.c
	if q.API != "SignVote" && q.API != "SignProposal" {
		return
	}
	c.Count("strace_cases", 1)
	sdir := filepath.Join(c.Scratch, tag+"-strace")
	keyDir := filepath.Join(sdir, "key")
	reset := func() {
		os.RemoveAll(keyDir)
		os.MkdirAll(keyDir, 0755)
		ioutil.WriteFile(filepath.Join(keyDir, keyFileName), oldState, 0600)
	}
	os.MkdirAll(sdir, 0755)
	defer os.RemoveAll(sdir)
	rb, _ := json.Marshal(signerRequest{Req: q, Pool: encodePool(t.pool)})
	ioutil.WriteFile(filepath.Join(sdir, "request.json"), rb, 0600)

	reset()
	trace, err := runSigner(c, sdir, "")
	if err != nil {
		c.Count("strace_unavailable", 1)
		c.Logf("strace lane: %v", err)
		return
	}
	cal, why := parseCalibration(trace)
	if cal == nil {
		// the request does not write (refused or a replay): no crash space beyond a plain reload
		c.Count("strace_requests_without_write", 1)
		c.Logf("strace lane: %s", why)
		return
	}
	c.Count("strace_requests_enumerated", 1)
	// the unfaulted run is itself the crash point "process dies right after handing the signature out"
	pts := append([]faultPoint{{Sys: "none", Fault: "exit-after-release"}}, faultPoints(cal)...)
	for i, p := range pts {
		if t.dead {
			return
		}
		if p.Sys != "none" {
			reset()
			trace, err = runSigner(c, sdir, p.String())
			if err != nil {
				c.Count("strace_run_errors", 1)
				continue
			}
			if ok, why := verifyInjection(trace, p); !ok {
				c.Count("strace_points_miscalibrated", 1)
				c.Logf("strace lane: %s not verified: %s", p, why)
				continue
			}
		}
		c.Count("strace_points_executed", 1)
		c.Count("strace_point:"+p.Sys+":"+p.Fault, 1)
		t.stats.crashPoints++
		// what did the child hand out, what did it leave on disk
		var ob outbox
		released := false
		if b, err := ioutil.ReadFile(filepath.Join(sdir, "outbox.json")); err == nil && json.Unmarshal(b, &ob) == nil && ob.Sig != "" {
			released = true
		}
		bdir := filepath.Join(c.Scratch, fmt.Sprintf("%s-strace-%d", tag, i))
		os.RemoveAll(bdir)
		if err := os.Rename(keyDir, bdir); err != nil {
			c.Count("strace_run_errors", 1)
			continue
		}
		b := t.forkAt(fmt.Sprintf("%s-strace-%s", tag, p), bdir, len(t.rel), r.Split())
		cur, _ := ioutil.ReadFile(b.path)
		state := "old"
		if string(cur) != string(oldState) {
			state = "changed"
		}
		if left := strayFiles(bdir); len(left) > 0 {
			c.Count("strace_stray_temp_files_seen", 1)
		}
		b.hist = append(b.hist, event{Op: "child-process-under-strace", Req: q, Res: fmt.Sprintf("fault %s; released=%v; key file %s", p, released, state)})
		c.Count(fmt.Sprintf("strace_outcome:released=%v,file=%s", released, state), 1)
		if released {
			sb, _ := hex.DecodeString(ob.SB)
			sig, _ := hex.DecodeString(ob.Sig)
			out := outcome{ok: true, sb: sb, sig: sig, wrote: state == "changed"}
			b.hist[len(b.hist)-1].SB = string(sb)
			added := b.judge(q, out)
			if !b.dead {
				b.checkDisk(q, out, added)
			}
		} else {
			// nothing was handed out; the record may be ahead of the releases, never behind
			b.checkDisk(q, outcome{}, false)
		}
		if !b.dead {
			b.continueAfterCrash(q, i%2, "strace-"+state, r)
		}
		os.RemoveAll(bdir)
	}
}
