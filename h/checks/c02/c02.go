// Package c02: honest validators vote only for fully valid blocks; committed blocks apply (DESIGN.md §5 C02).
package c02

import (
	"fmt"
	"math/big"
	"os"
	"os/signal"
	"strings"
	"syscall"
	"time"

	cs "github.com/lianxiangcloud/linkchain/consensus"
	cstypes "github.com/lianxiangcloud/linkchain/consensus/types"
	"github.com/lianxiangcloud/linkchain/libs/common"
	"github.com/lianxiangcloud/linkchain/libs/crypto"
	"github.com/lianxiangcloud/linkchain/libs/ser"
	"github.com/lianxiangcloud/linkchain/types"

	"verif/h/internal/chainkit"
	"verif/h/internal/core"
	"verif/h/internal/detsim"
	"verif/h/internal/realsim"
	"verif/h/internal/rng"
	_ "verif/shim/goshim"
)

var sigterm = make(chan os.Signal, 8)

func init() {
	core.Register(&core.Check{
		ID:        "C02",
		Level:     "exploration",
		Technique: "deterministic consensus simulation over the real application: a Byzantine proposer (real key, its turn) gossips otherwise valid blocks with one consensus-level field corrupted and consistently re-hashed; trace oracle on the correct validators' votes, ApplyBlock outcome and the process-kill request",
		Rule: "case = a 4-validator chain with the real LinkApplication behind each of 3 correct state machines; at the first turn of the Byzantine proposer at height >= Ht (Ht in 1..3) it proposes a block built by the real proposer path with one corruption from the enumerated list " +
			"(chain id, height, LastBlockID, NumTxs/TotalTxs, ConsensusHash, ValidatorsHash, LastCommitHash/EvidenceHash inconsistency, LastCommit with <=2/3 / wrong round / wrong block / bad or transplanted signature / wrong size, evidence missing / doubled / wrong proposer / forged duplicate-vote evidence); " +
			"violation = a correct node prevotes or precommits that block, ApplyBlock fails after a commit, the node asks to be killed (SIGTERM to self), or the state machine panics. non-trivial = the corrupted proposal was completely delivered to >= 1 correct node in Propose step; distinct by (corruption, height and round, power set, schedule counters)",
		Assumptions: []string{"application-level execution stays valid (blocks are built by the real CreateBlock/PreRunBlock on a correct replica)", "the Byzantine validator holds exactly 1/4 of the power and acts only as proposer"},
		Cases: func(tier string) int {
			if tier == "thorough" {
				return 6000
			}
			return 192
		},
		Run: run,
		Init: func() {
			core.QuietLogs()
			signal.Notify(sigterm, syscall.SIGTERM)
		},
		Floors: func(tier string) map[string]int64 {
			return map[string]int64{"corrupted_proposals_delivered": 80, "nil_prevotes_on_corrupted_proposal": 150, "commits": 300, "corruptions_at_height_ge2": 30, "recovered_next_round_commit": 40, "corrupted_proposals_with_pol_round": 8, "total_power_mod3=2": 8, "corruption:lastcommit/too-few-precommits": 8, "same_header_twins_validated": 300}
		},
	})
}

// noDirect: these blocks are refused by the state machine itself (addProposalBlockPart drops a block whose
// recover count differs from the node's), not by ValidateBlock; only the vote oracle judges them.
var noDirect = map[string]bool{"header/Recover-nonzero+ValidatorsHash": true}

type corruption struct {
	Name  string
	MinH  uint64
	Apply func(r *rng.R, b *types.Block, env *env) bool
}

type env struct {
	sim     *detsim.Sim
	g       *chainkit.Genesis
	status  cs.NewStatus
	byzKey  crypto.PrivKeyEd25519
	chainID string
}

func flipHash(h common.Hash, r *rng.R) common.Hash {
	h[r.Intn(32)] ^= byte(1 << uint(r.Intn(8)))
	return h
}

func cloneVote(v *types.Vote) *types.Vote {
	if v == nil {
		return nil
	}
	c := *v
	return &c
}

// newCommit returns a commit with fresh caches.
func newCommit(bid types.BlockID, pcs []*types.Vote) *types.Commit {
	return &types.Commit{BlockID: bid, Precommits: pcs}
}

func commitVotes(b *types.Block) []*types.Vote {
	out := make([]*types.Vote, len(b.LastCommit.Precommits))
	for i, v := range b.LastCommit.Precommits {
		out[i] = cloneVote(v)
	}
	return out
}

func (e *env) resign(v *types.Vote) bool {
	for _, k := range e.g.Vals {
		if string(k.Address()) == string(v.ValidatorAddress) {
			sig, err := k.Priv.Sign(v.SignBytes(e.chainID))
			if err != nil {
				return false
			}
			v.Signature = sig
			return true
		}
	}
	return false
}

func setCommit(b *types.Block, c *types.Commit) {
	b.LastCommit = c
	b.LastCommitHash = c.Hash()
}

func setEvidence(b *types.Block, evs types.EvidenceList) {
	b.Evidence = types.EvidenceData{Evidence: evs}
	b.EvidenceHash = b.Evidence.Hash()
}

var corruptions = []corruption{
	{"header/ChainID", 1, func(r *rng.R, b *types.Block, e *env) bool { b.ChainID = b.ChainID + "-x"; return true }},
	{"header/Height+1", 1, func(r *rng.R, b *types.Block, e *env) bool { return false }}, // a block of another height is dropped before voting; kept as a no-op marker
	{"header/NumTxs", 1, func(r *rng.R, b *types.Block, e *env) bool { b.NumTxs++; return true }},
	{"header/TotalTxs", 1, func(r *rng.R, b *types.Block, e *env) bool { b.TotalTxs += 1 + uint64(r.Intn(3)); return true }},
	{"header/LastBlockID.Hash", 1, func(r *rng.R, b *types.Block, e *env) bool {
		b.LastBlockID.Hash = flipHash(b.LastBlockID.Hash, r)
		return true
	}},
	{"header/LastBlockID.Parts", 2, func(r *rng.R, b *types.Block, e *env) bool { b.LastBlockID.PartsHeader.Total++; return true }},
	{"header/ConsensusHash", 1, func(r *rng.R, b *types.Block, e *env) bool {
		b.ConsensusHash = flipHash(b.ConsensusHash, r)
		return true
	}},
	{"header/ValidatorsHash", 1, func(r *rng.R, b *types.Block, e *env) bool {
		b.ValidatorsHash = flipHash(b.ValidatorsHash, r)
		return true
	}},
	{"header/Recover-nonzero+ValidatorsHash", 1, func(r *rng.R, b *types.Block, e *env) bool {
		// a block that claims a recover round while the chain runs normally; validation of such blocks skips the
		// validator-set hash, the state machine drops them because its own recover count differs. (Recover alone
		// is not part of the block hash: a Recover-only change is indistinguishable, by hash, from the honest
		// block and cannot be judged through votes; the validator-set hash makes the identity differ.)
		b.Recover = uint32(1 + r.Intn(7))
		b.ValidatorsHash = flipHash(b.ValidatorsHash, r)
		return true
	}},
	{"header/LastCommitHash-inconsistent", 1, func(r *rng.R, b *types.Block, e *env) bool {
		b.LastCommitHash = flipHash(b.LastCommitHash, r)
		return true
	}},
	{"header/EvidenceHash-inconsistent", 1, func(r *rng.R, b *types.Block, e *env) bool {
		b.EvidenceHash = flipHash(b.EvidenceHash, r)
		return true
	}},
	{"lastcommit/nonempty-at-first-height", 1, func(r *rng.R, b *types.Block, e *env) bool {
		if b.Height != types.BlockHeightOne {
			return false
		}
		v := &types.Vote{ValidatorAddress: e.byzKey.PubKey().Address(), Height: 0, Type: types.VoteTypePrecommit, Timestamp: time.Unix(1569409200, 0).UTC()}
		setCommit(b, newCommit(types.BlockID{}, []*types.Vote{v}))
		return true
	}},
	{"lastcommit/too-few-precommits", 2, func(r *rng.R, b *types.Block, e *env) bool {
		// keep the subset with the LARGEST tally that is still <= 2/3 of the total power (the exact boundary)
		pcs := commitVotes(b)
		vals := e.status.LastValidators
		total := vals.TotalVotingPower()
		n := len(pcs)
		best, bestMask := int64(-1), 0
		for mask := 0; mask < 1<<uint(n); mask++ {
			var t int64
			ok := true
			for i := 0; i < n; i++ {
				if mask&(1<<uint(i)) != 0 {
					if pcs[i] == nil {
						ok = false
						break
					}
					_, v := vals.GetByIndex(i)
					t += v.VotingPower
				}
			}
			if ok && 3*t <= 2*total && t > best {
				best, bestMask = t, mask
			}
		}
		for i := 0; i < n; i++ {
			if bestMask&(1<<uint(i)) == 0 {
				pcs[i] = nil
			}
		}
		setCommit(b, newCommit(b.LastCommit.BlockID, pcs))
		return best >= 0
	}},
	{"lastcommit/one-signer-in-several-slots", 2, func(r *rng.R, b *types.Block, e *env) bool {
		// one genuine precommit copied into every slot (verbatim, or with the index rewritten to the slot): the
		// signatures are all valid signatures of ONE validator; a verifier that does not bind the slot to the
		// validator counts its power once per slot
		pcs := commitVotes(b)
		var src *types.Vote
		for _, i := range r.Perm(len(pcs)) {
			if pcs[i] != nil {
				src = pcs[i]
				break
			}
		}
		if src == nil || len(pcs) < 2 {
			return false
		}
		rewrite := r.Bool()
		keepGenuine := r.Chance(0.3) // leave one other genuine precommit in place (still far below the quorum)
		kept := false
		for i := range pcs {
			if pcs[i] == src {
				continue
			}
			if keepGenuine && !kept && pcs[i] != nil {
				kept = true
				continue
			}
			cp := *src
			if rewrite {
				cp.ValidatorIndex = i
			}
			pcs[i] = &cp
		}
		setCommit(b, newCommit(b.LastCommit.BlockID, pcs))
		return true
	}},
	{"lastcommit/all-nil", 2, func(r *rng.R, b *types.Block, e *env) bool {
		setCommit(b, newCommit(b.LastCommit.BlockID, make([]*types.Vote, len(b.LastCommit.Precommits))))
		return true
	}},
	{"lastcommit/wrong-size", 2, func(r *rng.R, b *types.Block, e *env) bool {
		pcs := commitVotes(b)
		if r.Bool() {
			pcs = append(pcs, nil)
		} else {
			pcs = pcs[:len(pcs)-1]
		}
		setCommit(b, newCommit(b.LastCommit.BlockID, pcs))
		return true
	}},
	{"lastcommit/bad-signature", 2, func(r *rng.R, b *types.Block, e *env) bool {
		pcs := commitVotes(b)
		for _, i := range r.Perm(len(pcs)) {
			if pcs[i] != nil {
				sig := pcs[i].Signature.(crypto.SignatureEd25519)
				sig[r.Intn(64)] ^= 0x40
				pcs[i].Signature = sig
				setCommit(b, newCommit(b.LastCommit.BlockID, pcs))
				return true
			}
		}
		return false
	}},
	{"lastcommit/transplanted-signature", 2, func(r *rng.R, b *types.Block, e *env) bool {
		pcs := commitVotes(b)
		var idx []int
		for i, v := range pcs {
			if v != nil {
				idx = append(idx, i)
			}
		}
		if len(idx) < 2 {
			return false
		}
		pcs[idx[0]].Signature = pcs[idx[1]].Signature
		setCommit(b, newCommit(b.LastCommit.BlockID, pcs))
		return true
	}},
	{"lastcommit/votes-for-other-block", 2, func(r *rng.R, b *types.Block, e *env) bool {
		// two validators (re-)sign precommits for another block id: correctly signed, but not for LastBlockID
		pcs := commitVotes(b)
		n := 0
		other := b.LastCommit.BlockID
		other.Hash = flipHash(other.Hash, r)
		for _, v := range pcs {
			if v != nil && n < 2 {
				v.BlockID = other
				if !e.resign(v) {
					return false
				}
				n++
			}
		}
		setCommit(b, newCommit(b.LastCommit.BlockID, pcs))
		return n == 2
	}},
	{"lastcommit/mixed-rounds", 2, func(r *rng.R, b *types.Block, e *env) bool {
		pcs := commitVotes(b)
		for _, v := range pcs {
			if v != nil {
				v.Round++
				if !e.resign(v) {
					return false
				}
				break
			}
		}
		setCommit(b, newCommit(b.LastCommit.BlockID, pcs))
		return true
	}},
	{"lastcommit/wrong-height-votes", 2, func(r *rng.R, b *types.Block, e *env) bool {
		pcs := commitVotes(b)
		for _, v := range pcs {
			if v != nil {
				v.Height++
				if !e.resign(v) {
					return false
				}
			}
		}
		setCommit(b, newCommit(b.LastCommit.BlockID, pcs))
		return true
	}},
	{"lastcommit/wrong-chain-signatures", 2, func(r *rng.R, b *types.Block, e *env) bool {
		pcs := commitVotes(b)
		for _, v := range pcs {
			if v != nil {
				for _, k := range e.g.Vals {
					if string(k.Address()) == string(v.ValidatorAddress) {
						sig, _ := k.Priv.Sign(v.SignBytes("another-chain"))
						v.Signature = sig
					}
				}
			}
		}
		setCommit(b, newCommit(b.LastCommit.BlockID, pcs))
		return true
	}},
	{"evidence/fault-record-at-first-height", 1, func(r *rng.R, b *types.Block, e *env) bool {
		// the first block has no previous commit to judge a fault-validator record against: any such record is
		// invalid there, and validating it must not need the (absent) precommits
		if b.Height != types.BlockHeightOne {
			return false
		}
		f := &types.FaultValidatorsEvidence{BlockHeight: b.Height - 1, Round: r.Intn(2), Proposer: e.g.Vals[r.Intn(len(e.g.Vals))].PubKey()}
		if r.Bool() {
			f.BlockHeight = b.Height
		}
		setEvidence(b, append(append(types.EvidenceList{}, b.Evidence.Evidence...), f))
		return true
	}},
	{"evidence/fault-record-missing", 2, func(r *rng.R, b *types.Block, e *env) bool {
		var evs types.EvidenceList
		for _, ev := range b.Evidence.Evidence {
			if _, ok := ev.(*types.FaultValidatorsEvidence); !ok {
				evs = append(evs, ev)
			}
		}
		if len(evs) == len(b.Evidence.Evidence) {
			return false
		}
		setEvidence(b, evs)
		return true
	}},
	{"evidence/fault-record-doubled", 2, func(r *rng.R, b *types.Block, e *env) bool {
		for _, ev := range b.Evidence.Evidence {
			if f, ok := ev.(*types.FaultValidatorsEvidence); ok {
				c := *f
				setEvidence(b, append(append(types.EvidenceList{}, b.Evidence.Evidence...), &c))
				return true
			}
		}
		return false
	}},
	{"evidence/fault-record-wrong-proposer", 2, func(r *rng.R, b *types.Block, e *env) bool {
		var evs types.EvidenceList
		done := false
		for _, ev := range b.Evidence.Evidence {
			if f, ok := ev.(*types.FaultValidatorsEvidence); ok && !done {
				c := *f
				for _, k := range e.g.Vals {
					if !k.PubKey().Equals(f.Proposer) {
						c.Proposer = k.PubKey()
						break
					}
				}
				evs = append(evs, &c)
				done = true
			} else {
				evs = append(evs, ev)
			}
		}
		setEvidence(b, evs)
		return done
	}},
	{"evidence/fault-record-nil-key", 2, func(r *rng.R, b *types.Block, e *env) bool {
		// the record names the previous proposer (and, after a late-round commit, the validator that failed to
		// propose) by public key; a nil key survives the wire encoding and must simply make the record invalid
		var evs types.EvidenceList
		done := false
		for _, ev := range b.Evidence.Evidence {
			if f, ok := ev.(*types.FaultValidatorsEvidence); ok && !done {
				c := *f
				if f.Round > 0 && f.FaultVal != nil && r.Bool() {
					c.FaultVal = nil
				} else {
					c.Proposer = nil
				}
				evs = append(evs, &c)
				done = true
			} else {
				evs = append(evs, ev)
			}
		}
		setEvidence(b, evs)
		return done
	}},
	{"evidence/fault-record-wrong-round", 2, func(r *rng.R, b *types.Block, e *env) bool {
		var evs types.EvidenceList
		done := false
		for _, ev := range b.Evidence.Evidence {
			if f, ok := ev.(*types.FaultValidatorsEvidence); ok && !done {
				c := *f
				c.Round += 1 + r.Intn(3)
				evs = append(evs, &c)
				done = true
			} else {
				evs = append(evs, ev)
			}
		}
		setEvidence(b, evs)
		return done
	}},
	{"evidence/forged-duplicate-vote", 2, func(r *rng.R, b *types.Block, e *env) bool {
		// duplicate-vote evidence against a correct validator, signed by the Byzantine key (wrong signer)
		victim := e.g.Vals[0]
		if victim.PubKey().Equals(e.byzKey.PubKey()) {
			victim = e.g.Vals[1]
		}
		idx, _ := e.status.Validators.GetByAddress(victim.Address())
		mk := func(h common.Hash) *types.Vote {
			v := &types.Vote{ValidatorAddress: victim.Address(), ValidatorIndex: idx, ValidatorSize: e.status.Validators.Size(), Height: b.Height - 1, Round: 0,
				Timestamp: time.Unix(1569409200, 0).UTC(), Type: types.VoteTypePrevote, BlockID: types.BlockID{Hash: h, PartsHeader: types.PartSetHeader{Total: 1, Hash: h.Bytes()}}}
			sig, _ := e.byzKey.Sign(v.SignBytes(e.chainID))
			v.Signature = sig
			return v
		}
		var h1, h2 common.Hash
		copy(h1[:], r.Bytes(32))
		copy(h2[:], r.Bytes(32))
		dve := &types.DuplicateVoteEvidence{PubKey: victim.PubKey(), VoteA: mk(h1), VoteB: mk(h2)}
		setEvidence(b, append(append(types.EvidenceList{}, b.Evidence.Evidence...), dve))
		return true
	}},
}

func reencode(b *types.Block) (*types.Block, error) {
	bz, err := ser.EncodeToBytes(b)
	if err != nil {
		return nil, err
	}
	var out *types.Block
	err = ser.DecodeBytes(bz, &out)
	return out, err
}

func run(c *core.Ctx) {
	r := c.Rng
	for len(sigterm) > 0 {
		<-sigterm
	}
	powers := [][]int64{{10, 10, 10, 10}, {10, 10, 10, 10}, {1, 1, 1, 1, 1}, {3, 2, 2, 1}, {2, 2, 2, 1, 1}, {5, 4, 3, 2}, {7, 7, 7, 2}}[r.Intn(7)]
	g, err := chainkit.BuildGenesis(chainkit.GenesisOpts{Seed: r.Uint64(), NumAccounts: 3, Powers: powers})
	if err != nil {
		c.Inconclusive("genesis: " + err.Error())
		return
	}
	var total int64
	for _, p := range powers {
		total += p
	}
	c.Count(fmt.Sprintf("total_power_mod3=%d", total%3), 1)
	// the Byzantine validator: any one holding strictly less than a third
	byzID := -1
	for _, i := range r.Perm(len(powers)) {
		if 3*powers[i] < total {
			byzID = i
			break
		}
	}
	byz := make([]bool, len(powers))
	byz[byzID] = true
	sim, apps, err := realsim.New(r.Split(), g, byz, detsim.Config{Heights: 1000, MaxSteps: 0, Scratch: c.Scratch, KeepTrace: c.Verbose})
	if err != nil {
		c.Inconclusive("simulator: " + err.Error())
		return
	}
	defer func() {
		for _, n := range sim.Nodes {
			n.CS.Stop()
		}
		for _, a := range apps {
			a.N.Close()
		}
	}()
	// some transfers in every correct mempool so that blocks carry transactions
	nonce := uint64(0)
	for i := 0; i < 6; i++ {
		tx, err := chainkit.NewTransfer(g.Accounts[0], nonce, g.Accounts[1].Addr, bigInt(int64(1+i)*1e15))
		if err != nil {
			c.Inconclusive("tx: " + err.Error())
			return
		}
		nonce++
		for _, a := range apps {
			a.N.Mempool.AddTx("", tx)
		}
	}
	// every corruption gets its share of the cases (round robin over the case index), the rest is drawn
	ci := r.Intn(len(corruptions))
	if c.Index%3 != 2 {
		ci = (c.Index - c.Index/3) % len(corruptions)
	} else if r.Chance(0.45) {
		// the quorum boundary deserves more than 1/25 of the cases
		for i, cc := range corruptions {
			if cc.Name == "lastcommit/too-few-precommits" {
				ci = i
			}
		}
	}
	cor := corruptions[ci]
	twins := 0
	targetH := cor.MinH + uint64(r.Intn(3))
	if strings.HasSuffix(cor.Name, "-at-first-height") {
		targetH = 1
	}
	e := &env{sim: sim, g: g, byzKey: sim.Vals[byzID].Priv, chainID: sim.ChainID}
	// half of the cases: at the target height every honest proposal is lost until the Byzantine validator's
	// turn comes in a round > 0; its corrupted proposal then names an earlier round (which ended with +2/3
	// nil prevotes) as proof-of-lock round.
	lateRound := r.Bool()
	suppressH := uint64(0)
	sim.DropFilter = func(pm *detsim.PoolMsg, n *detsim.Node) bool {
		return suppressH != 0 && pm.Height == suppressH && !pm.Byz && (pm.Kind == "proposal" || pm.Kind == "part")
	}
	corrupted := map[common.Hash]string{}
	proposed := map[[2]uint64]bool{}
	var corruptedAt [2]uint64
	haveCorrupted := false
	nilPrevotes := 0
	sim.Mon.VoteHook = func(n *detsim.Node, v *types.Vote) {
		if name, bad := corrupted[v.BlockID.Hash]; bad && !v.BlockID.IsZero() {
			kind := "prevote"
			if v.Type == types.VoteTypePrecommit {
				kind = "precommit"
			}
			st := n.CS.VerifStatus()
			blk := n.CS.GetRoundState().ProposalBlock
			verr := "n/a"
			if blk != nil {
				if err := apps[n.ID].N.BlockExec.ValidateBlock(st, blk); err != nil {
					verr = err.Error()
				} else {
					verr = "<nil>"
				}
			}
			sim.Mon.Violate("vote-for-invalid-block/"+kind+"/"+name, fmt.Sprintf("correct validator v%d %sd block %x at %d/%d although it fails full validation (corruption %s; the repository's own ValidateBlock says: %s)", n.ID, kind, v.BlockID.Hash[:6], v.Height, v.Round, name, verr))
		}
		if haveCorrupted && v.Height == corruptedAt[0] && uint64(v.Round) == corruptedAt[1] && v.Type == types.VoteTypePrevote && v.BlockID.IsZero() {
			nilPrevotes++
		}
	}
	maxSteps := 4000
	recovered := false
	for step := 0; step < maxSteps && !sim.Mon.Fatal(); step++ {
		// adversary: is it the Byzantine validator's turn somewhere?
		for _, n := range sim.Nodes {
			rs := n.CS.GetRoundState()
			if rs.Step > cstypes.RoundStepPropose || rs.Step < cstypes.RoundStepNewRound {
				continue
			}
			k := [2]uint64{rs.Height, uint64(rs.Round)}
			if lateRound && !haveCorrupted && rs.Height >= targetH && suppressH == 0 && rs.Round == 0 &&
				string(rs.Validators.GetProposer().Address) != string(e.byzKey.PubKey().Address()) {
				suppressH = rs.Height
				c.Count("heights_with_suppressed_honest_proposals", 1)
			}
			if proposed[k] || string(rs.Validators.GetProposer().Address) != string(e.byzKey.PubKey().Address()) {
				continue
			}
			proposed[k] = true
			block, _, p := n.CS.VerifCreateProposalBlock()
			if p != nil || block == nil {
				c.Count("adversary_could_not_build_block", 1)
				continue
			}
			fresh, err := reencode(block)
			if err != nil {
				c.Inconclusive("reencode: " + err.Error())
				return
			}
			// Side oracle, same-header twins: validation must be a function of the block's CONTENT. The honest
			// block is validated first on this node's executor (as the node does when the proposal arrives), then
			// bodies that differ from it under the very same header (same block hash, no derived hash re-computed).
			// Nothing of this is gossiped (votes could not tell the twins apart by hash).
			if twins < 3 {
				if ok := func() (ok bool) {
					defer func() {
						if p := recover(); p != nil {
							sim.Mon.Violate("validateblock-panics/same-header-twin", fmt.Sprintf("ValidateBlock panicked on a same-header twin: %v", p))
						}
					}()
					st := n.CS.VerifStatus()
					if err := apps[n.ID].N.BlockExec.ValidateBlock(st, fresh); err != nil {
						return false // not a valid base (e.g. the node is between heights): nothing to compare
					}
					for _, tw := range []struct {
						name string
						mut  func(b *types.Block) bool
					}{
						{"last-commit-signature-changed", func(b *types.Block) bool {
							for _, pc := range b.LastCommit.Precommits {
								if pc != nil {
									if sig, ok := pc.Signature.(crypto.SignatureEd25519); ok {
										sig[r.Intn(64)] ^= 0x10
										pc.Signature = sig
										return true
									}
								}
							}
							return false
						}},
						{"last-commit-precommit-dropped", func(b *types.Block) bool {
							for i, pc := range b.LastCommit.Precommits {
								if pc != nil {
									b.LastCommit.Precommits[i] = nil
									return true
								}
							}
							return false
						}},
						{"tx-dropped", func(b *types.Block) bool {
							if len(b.Data.Txs) == 0 {
								return false
							}
							b.Data.Txs = b.Data.Txs[:len(b.Data.Txs)-1]
							return true
						}},
						{"evidence-dropped", func(b *types.Block) bool {
							if len(b.Evidence.Evidence) == 0 {
								return false
							}
							b.Evidence.Evidence = b.Evidence.Evidence[:len(b.Evidence.Evidence)-1]
							return true
						}},
					} {
						twin, err := reencode(fresh)
						if err != nil || !tw.mut(twin) {
							continue
						}
						if twin, err = reencode(twin); err != nil || twin.Hash() != fresh.Hash() {
							continue
						}
						c.Count("same_header_twins_validated", 1)
						if err := apps[n.ID].N.BlockExec.ValidateBlock(st, twin); err == nil {
							sim.Mon.Violate("validateblock-accepts/same-header-twin/"+tw.name, fmt.Sprintf("after the honest block of height %d was validated, ValidateBlock accepted a block with the same header (same block hash) and another body: %s", fresh.Height, tw.name))
						}
					}
					return true
				}(); ok {
					twins++
				}
			}
			name := ""
			if !haveCorrupted && rs.Height >= targetH {
				e.status = n.CS.VerifStatus()
				if cor.Apply(r, fresh, e) {
					name = cor.Name
					// make sure the mutation survived serialisation and changed the identity
					fresh, err = reencode(fresh)
					if err != nil {
						c.Count("corrupted_block_unencodable", 1)
						name = ""
						fresh, _ = reencode(block)
					}
				}
			}
			parts := fresh.MakePartSet(sim.GenDoc.ConsensusParams.BlockGossip.BlockPartSizeBytes)
			if name != "" {
				// by-construction check: the repository's validator (on this correct node's status) must reject it;
				// if it does not, either the corruption is a no-op or validation itself is weakened
				err, vpanic := func() (err error, p interface{}) {
					defer func() { p = recover() }()
					return apps[n.ID].N.BlockExec.ValidateBlock(e.status, fresh), nil
				}()
				if vpanic != nil {
					// validators run ValidateBlock on every proposal before they prevote: a panic there ends the
					// consensus routine of every correct node that receives this proposal
					sim.Mon.Violate("validateblock-panics/"+name, fmt.Sprintf("ValidateBlock panicked on a block at height %d with corruption %s: %v", fresh.Height, name, vpanic))
				} else if err == nil && !noDirect[name] {
					c.Count("corruptions_accepted_by_ValidateBlock", 1)
					sim.Mon.Violate("validateblock-accepts/"+name, fmt.Sprintf("ValidateBlock accepted a block at height %d with corruption %s", fresh.Height, name))
				}
				corrupted[fresh.Hash()] = name
				corruptedAt = k
				haveCorrupted = true
				c.Count("corrupted_proposals_gossiped", 1)
				if rs.Height >= 2 {
					c.Count("corruptions_at_height_ge2", 1)
				}
				c.Count("corruption:"+name, 1)
			} else {
				c.Count("honest_byzantine_proposals", 1)
			}
			polRound := -1
			if name != "" && rs.Round > 0 && r.Chance(0.8) {
				polRound = r.Intn(rs.Round)
				c.Count("corrupted_proposals_with_pol_round", 1)
			}
			if name != "" && rs.Round > 0 {
				c.Count("corrupted_proposals_round_gt0", 1)
			}
			if name != "" {
				suppressH = 1 << 62 // stop suppressing: the network is benign again
			}
			pr := types.NewProposal(rs.Height, rs.Round, parts.Header(), polRound, types.BlockID{})
			pr.Timestamp = time.Unix(1569409200+int64(step), 0).UTC()
			pr.Type = types.ProposalTypeNormal
			sig, _ := e.byzKey.Sign(pr.SignBytes(sim.ChainID))
			pr.Signature = sig
			sim.PostAll(byzID, &cs.ProposalMessage{Proposal: pr})
			for i := 0; i < parts.Total(); i++ {
				sim.PostAll(byzID, &cs.BlockPartMessage{Height: rs.Height, Round: rs.Round, Part: parts.GetPart(i)})
			}
		}
		// the Byzantine validator also votes for its own block so that it can gather a commit if accepted
		if haveCorrupted {
			for h, name := range corrupted {
				_ = name
				k := [2]uint64{corruptedAt[0], corruptedAt[1] + 100}
				if !proposed[k] {
					proposed[k] = true
					for _, pm := range sim.Pool {
						if pp, ok := pm.Msg.(*cs.ProposalMessage); ok && pm.From == byzID && pp.Proposal.Height == corruptedAt[0] && uint64(pp.Proposal.Round) == corruptedAt[1] {
							bid := types.BlockID{Hash: h, PartsHeader: pp.Proposal.BlockPartsHeader}
							sim.PostAll(byzID, &cs.VoteMessage{Vote: sim.SignVote(byzID, types.VoteTypePrevote, corruptedAt[0], int(corruptedAt[1]), bid)})
							sim.PostAll(byzID, &cs.VoteMessage{Vote: sim.SignVote(byzID, types.VoteTypePrecommit, corruptedAt[0], int(corruptedAt[1]), bid)})
						}
					}
				}
			}
		}
		if sim.RunFair(1, func() bool { return false }) == 0 {
			break
		}
		select {
		case <-sigterm:
			sim.Mon.Violate("post-commit/process-kill-requested", fmt.Sprintf("a node sent SIGTERM to its own process (finalizeCommit: ApplyBlock failed after the block was committed); corruption %s at %v", cor.Name, corruptedAt))
		default:
		}
		if haveCorrupted {
			done := true
			for _, n := range sim.Nodes {
				if n.App.Height() < corruptedAt[0] {
					done = false
				}
			}
			if done {
				recovered = true
				break
			}
		}
	}
	for k, v := range sim.Mon.Counters {
		c.Count(k, v)
	}
	if haveCorrupted {
		c.Count("nil_prevotes_on_corrupted_proposal", int64(nilPrevotes))
		delivered := 0
		for _, a := range apps {
			for range a.Checks {
				delivered++
			}
		}
		if nilPrevotes > 0 {
			c.Count("corrupted_proposals_delivered", 1)
			// distinct by corruption, position, power set and the schedule's counters (two cases with the same
			// corruption at the same height still differ in validators, round and delivery order)
			c.Nontrivial(fmt.Sprintf("%s@%v/%v/%d-%d-%d", cor.Name, corruptedAt, powers, sim.Steps, sim.Delivered, sim.TimeoutsFired))
		}
		if recovered && !sim.Mon.Fatal() {
			c.Count("recovered_next_round_commit", 1)
		} else if !sim.Mon.Fatal() {
			sim.Mon.Violate("wedge/no-commit-after-invalid-proposal", fmt.Sprintf("after the corrupted proposal (%s at %v) the correct nodes did not commit that height within the fault-free continuation", cor.Name, corruptedAt))
		}
	} else {
		c.Count("cases_without_corruption_opportunity", 1)
	}
	for _, v := range sim.Mon.Violations {
		tr := sim.Trace
		if len(tr) > 200 {
			tr = tr[len(tr)-200:]
		}
		c.Violation(v.Key, v.Detail, map[string]interface{}{"corruption": cor.Name, "target_height": targetH, "byzantine_validator": byzID, "trace_tail": tr})
	}
	if c.Index%32 == 0 {
		c.Sample(map[string]interface{}{"corruption": cor.Name, "target_height": targetH, "corrupted_at": corruptedAt, "nil_prevotes": nilPrevotes, "recovered": recovered})
	}
}

func bigInt(v int64) *big.Int { return big.NewInt(v) }
