package c06

import (
	"fmt"
	"math/big"
	"sort"
	"sync"

	cfg "github.com/lianxiangcloud/linkchain/config"
	"github.com/lianxiangcloud/linkchain/libs/common"
	"github.com/lianxiangcloud/linkchain/libs/crypto"
	"github.com/lianxiangcloud/linkchain/libs/ser"
	"github.com/lianxiangcloud/linkchain/libs/trie"
	"github.com/lianxiangcloud/linkchain/state"
	"github.com/lianxiangcloud/linkchain/types"

	"verif/h/internal/chainkit"
	"verif/h/internal/core"
	"verif/h/internal/rng"
)

var (
	lkc   = common.EmptyAddress
	price = big.NewInt(types.ParGasPrice)
	unit  = big.NewInt(types.UTXO_COMMITMENT_CHANGE_RATE) // 10^10 wei per committed unit
	e18   = new(big.Int).Exp(big.NewInt(10), big.NewInt(18), nil)
)

func lk(n int64) *big.Int { return new(big.Int).Mul(big.NewInt(n), e18) }

// genesis tokens without a contract behind them (account-based token transfers only)
var genesisTokens = []common.Address{
	common.HexToAddress("0x00000000000000000000000000000000c06a0001"),
	common.HexToAddress("0x00000000000000000000000000000000c06a0002"),
}

const (
	numAccounts = 8
	genesisSeed = 0xC06
)

var (
	genOnce sync.Once
	genVal  *chainkit.Genesis
	genErr  error
)

// genesis is a fixed function of constants, so sharing it between the cases of one process keeps
// every case a pure function of (seed, index).
func genesis() (*chainkit.Genesis, error) {
	genOnce.Do(func() {
		genVal, genErr = chainkit.BuildGenesis(chainkit.GenesisOpts{
			Seed: genesisSeed, NumAccounts: numAccounts, Powers: []int64{10, 10, 10, 10},
			Tokens: genesisTokens, TokenBalance: big.NewInt(1000000000000),
		})
	})
	return genVal, genErr
}

// ---------------------------------------------------------------- balances

// balances: address -> asset (LKC = empty address) -> amount.
type balances map[common.Address]map[common.Address]*big.Int

func (b balances) get(a, t common.Address) *big.Int {
	if m := b[a]; m != nil {
		if v := m[t]; v != nil {
			return v
		}
	}
	return new(big.Int)
}

func (b balances) add(a, t common.Address, v *big.Int) {
	m := b[a]
	if m == nil {
		m = map[common.Address]*big.Int{}
		b[a] = m
	}
	cur := m[t]
	if cur == nil {
		cur = new(big.Int)
	}
	m[t] = new(big.Int).Add(cur, v)
}

func (b balances) sub(a, t common.Address, v *big.Int) { b.add(a, t, new(big.Int).Neg(v)) }

func (b balances) clone() balances {
	out := balances{}
	for a, m := range b {
		mm := map[common.Address]*big.Int{}
		for t, v := range m {
			mm[t] = new(big.Int).Set(v)
		}
		out[a] = mm
	}
	return out
}

// totals: asset -> sum over all accounts.
func (b balances) totals() map[common.Address]*big.Int {
	out := map[common.Address]*big.Int{}
	for _, m := range b {
		for t, v := range m {
			if out[t] == nil {
				out[t] = new(big.Int)
			}
			out[t].Add(out[t], v)
		}
	}
	return out
}

// snapshot enumerates ALL accounts of a committed state by iterating every leaf of its account
// trie. The leaf key is keccak(address); the address is resolved through the trie's preimage store
// or, where the node did not keep the preimage, through the set of addresses the generator knows
// (genesis, system contracts, every sender / recipient / created contract / beneficiary). A leaf
// whose address nobody knows still counts in the totals and is keyed by a pseudo address so the
// reference ledger comparison flags any value it holds.
func snapshot(st *state.StateDB, root common.Hash, known map[common.Hash]common.Address) (bal balances, accounts, unknown int, err error) {
	tr, err := st.Database().OpenTrie(root)
	if err != nil {
		return nil, 0, 0, fmt.Errorf("open trie %x: %v", root, err)
	}
	ni := tr.NodeIterator(nil)
	if ni == nil {
		return nil, 0, 0, fmt.Errorf("state is not in trie mode")
	}
	out := balances{}
	it := trie.NewIterator(ni)
	for it.Next() {
		if len(it.Key) != common.HashLength {
			return nil, 0, 0, fmt.Errorf("account trie key of length %d", len(it.Key))
		}
		var addr common.Address
		if pre := tr.GetKey(it.Key); len(pre) == common.AddressLength {
			addr = common.BytesToAddress(pre)
		} else if a, ok := known[common.BytesToHash(it.Key)]; ok {
			addr = a
		} else {
			unknown++
			copy(addr[:], []byte{0xff, 0xff, 0xff, 0xff})
			copy(addr[4:], it.Key[:16])
		}
		var acc state.Account
		if err := ser.DecodeBytes(it.Value, &acc); err != nil {
			return nil, 0, 0, fmt.Errorf("decode account %x: %v", addr, err)
		}
		accounts++
		if acc.Balance != nil && acc.Balance.Sign() != 0 {
			out.add(addr, lkc, acc.Balance)
		}
		for t, v := range acc.Tokens {
			if t == lkc {
				return nil, 0, 0, fmt.Errorf("account %x carries a token entry for the native coin", addr)
			}
			if v != nil && v.Sign() != 0 {
				out.add(addr, t, v)
			}
		}
	}
	if it.Err != nil {
		return nil, 0, 0, it.Err
	}
	return out, accounts, unknown, nil
}

// ---------------------------------------------------------------- world

type contractInfo struct {
	Addr     common.Address
	Kind     ckind
	Target   common.Address              // forwarder target / gate beneficiary
	Self     bool                        // gate: beneficiary is the contract itself
	Dead     bool                        // self-destructed in an earlier block: no code any more
	killed   bool                        // self-destructed in the block being replayed
	killedBy int                         // index of the first transaction of the block that killed it
	postKill map[common.Address]*big.Int // value credited after the kill and still sitting there
}

type world struct {
	c       *core.Ctx
	r       *rng.R
	g       *chainkit.Genesis
	p, v    *chainkit.Node
	wallets []*chainkit.UWallet
	led     *chainkit.Ledger
	nonce   []uint64 // next nonce per genesis account
	commit  *types.Commit

	contracts []*contractInfo
	byAddr    map[common.Address]*contractInfo
	eoas      []common.Address // fresh externally owned addresses that have been used as recipients
	tokens    []common.Address // every asset id other than LKC seen so far (genesis tokens + issuer contracts)

	cur    balances // observed committed balances
	hidden *big.Int // observed hidden pool value (LKC)
	known  map[common.Hash]common.Address
	mlsag1 *bool // does the repository's signer use an MLSAG for ring size 1?
}

func (w *world) know(a common.Address) { w.known[crypto.Keccak256Hash(a[:])] = a }

func newWorld(c *core.Ctx, withFollower bool) (*world, error) {
	g, err := genesis()
	if err != nil {
		return nil, err
	}
	w := &world{c: c, r: c.Rng, g: g, byAddr: map[common.Address]*contractInfo{}, nonce: make([]uint64, numAccounts), commit: chainkit.NilCommit(), known: map[common.Hash]common.Address{}}
	for _, a := range g.Accounts {
		w.know(a.Addr)
	}
	for _, a := range systemAddrs {
		w.know(a)
	}
	w.know(lkc)
	if w.p, err = g.NewNode(chainkit.NodeOpts{}); err != nil {
		return nil, err
	}
	if withFollower {
		if w.v, err = g.NewNode(chainkit.NodeOpts{}); err != nil {
			return nil, err
		}
	}
	wseed := c.Rng.Uint64()
	for i := 0; i < 3; i++ {
		w.wallets = append(w.wallets, chainkit.NewUWallet(wseed, i, 2))
	}
	w.led = chainkit.NewLedger(w.wallets)
	w.tokens = append(w.tokens, genesisTokens...)
	if err := w.observe(); err != nil {
		return nil, err
	}
	return w, nil
}

func (w *world) close() {
	if w.p != nil {
		w.p.Close()
	}
	if w.v != nil {
		w.v.Close()
	}
}

// observe re-reads the committed balances and the hidden pool.
func (w *world) observe() error {
	st := w.p.App.VerifStoreState()
	res := w.p.App.VerifLastTxsResult()
	b, n, unk, err := snapshot(st, res.TrieRoot, w.known)
	if err != nil {
		return err
	}
	w.c.Max("accounts_enumerated", int64(n))
	w.c.Count("account_leaves_read", int64(n))
	w.c.Count("accounts_unknown_to_generator", int64(unk))
	w.cur = b
	w.hidden = w.led.HiddenValue(lkc)
	return nil
}

type stepResult struct {
	Block    *types.Block
	Receipts types.Receipts
}

// step runs one height: proposer path on p, validator path (fresh decode + CheckBlock + commit) on
// the follower, then on p; receipts are taken from p between CheckBlock and CommitBlock.
func (w *world) step() (*stepResult, error) {
	n := w.p
	height := n.Status.LastBlockHeight + 1
	block, parts, err := n.Propose(w.commit, uint64(chainkit.FixedTime.Unix())+height, nil)
	if err != nil {
		return nil, err
	}
	blockID := types.BlockID{Hash: block.Hash(), PartsHeader: parts.Header()}
	commit, err := w.g.MakeCommit(n.Status, n.Status.Validators, height, 0, blockID, nil)
	if err != nil {
		return nil, err
	}
	if w.v != nil {
		rp, err := chainkit.RebuildParts(parts)
		if err != nil {
			return nil, err
		}
		fb, err := chainkit.DecodeBlock(rp, 0)
		if err != nil {
			return nil, err
		}
		ok, err := w.v.Accept(fb, rp, commit, false)
		if err != nil || !ok {
			return nil, fmt.Errorf("validator replica rejected the proposer's block %d: checked=%v err=%v", height, ok, err)
		}
	}
	if !n.App.CheckBlock(block) {
		return nil, fmt.Errorf("proposer rejected its own block %d", height)
	}
	receipts, _, _, ok := n.App.VerifProcessResult(block.Hash())
	if !ok {
		return nil, fmt.Errorf("no process result for block %d", height)
	}
	receipts = append(types.Receipts{}, receipts...)
	vals, err := n.App.CommitBlock(block, parts, commit, false)
	if err != nil {
		return nil, fmt.Errorf("CommitBlock: %v", err)
	}
	ns, err := n.BlockExec.ApplyBlock(n.Status.Copy(), blockID, block, vals)
	if err != nil {
		return nil, fmt.Errorf("ApplyBlock: %v", err)
	}
	n.Status = ns
	w.commit = commit
	w.led.ScanBlock(block)
	return &stepResult{Block: block, Receipts: receipts}, nil
}

func (w *world) acct(i int) chainkit.Account { return w.g.Accounts[i] }

func (w *world) freshEOA() common.Address {
	a := common.BytesToAddress(w.r.Bytes(20))
	w.eoas = append(w.eoas, a)
	w.know(a)
	return a
}

// anyEOA: a genesis account, an already used fresh address or a new one.
func (w *world) anyEOA() common.Address {
	switch {
	case w.r.Chance(0.45):
		return w.acct(w.r.Intn(numAccounts)).Addr
	case len(w.eoas) > 0 && w.r.Chance(0.5):
		return w.eoas[w.r.Intn(len(w.eoas))]
	}
	return w.freshEOA()
}

func (w *world) liveContracts(kinds ...ckind) []*contractInfo {
	var out []*contractInfo
	for _, ci := range w.contracts {
		if ci.Dead {
			continue
		}
		if len(kinds) == 0 {
			out = append(out, ci)
			continue
		}
		for _, k := range kinds {
			if ci.Kind == k {
				out = append(out, ci)
			}
		}
	}
	return out
}

var systemAddrs = []common.Address{cfg.ContractCandidatesAddr, cfg.ContractCoefficientAddr, cfg.ContractCommitteeAddr, cfg.ContractFoundationAddr,
	cfg.ContractPledgeAddr, cfg.ContractConsCommitteeAddr, cfg.ContractBlacklistAddr, cfg.ContractValidatorsAddr}

func sortedAddrs(m map[common.Address]bool) []common.Address {
	var out []common.Address
	for a := range m {
		out = append(out, a)
	}
	sort.Slice(out, func(i, j int) bool { return string(out[i][:]) < string(out[j][:]) })
	return out
}

// cloneTx returns the transaction as a peer would receive it: encoded and decoded afresh (cold caches).
func cloneTx(tx types.Tx) (types.Tx, error) {
	b, err := ser.EncodeToBytes(types.Txs{tx})
	if err != nil {
		return nil, err
	}
	var out types.Txs
	if err := ser.DecodeBytes(b, &out); err != nil {
		return nil, err
	}
	if len(out) != 1 {
		return nil, fmt.Errorf("clone: %d txs", len(out))
	}
	return out[0], nil
}
