package c06

import (
	"fmt"
	"math/big"
	"reflect"
	"unsafe"

	"github.com/lianxiangcloud/linkchain/libs/crypto"

	cfg "github.com/lianxiangcloud/linkchain/config"
	"github.com/lianxiangcloud/linkchain/libs/common"
	"github.com/lianxiangcloud/linkchain/types"

	"verif/h/internal/chainkit"
	"verif/h/internal/core"
)

// ---------------------------------------------------------------- what the generator intended

type intent struct {
	Kind  string // transfer | token | create | call | tokencall | ain | uin
	From  common.Address
	To    common.Address
	Token common.Address
	Value *big.Int
	Data  []byte
	Gas   uint64
	// create
	Ctor   string // deploy | revert | invalid | selfsuicide
	LowGas bool
	Create *contractInfo // description of the contract a successful "deploy" leaves behind
	// confidential
	Fee   *big.Int
	Ain   *big.Int // account input amount (includes the fee)
	Ins   []*chainkit.OwnedOut
	UOuts []*big.Int
	AOut  *big.Int
	Ring  int
	acct  int // index of the paying genesis account, -1 for U-in
}

func (it *intent) brief() map[string]interface{} {
	m := map[string]interface{}{"kind": it.Kind}
	if it.From != lkc {
		m["from"] = it.From.Hex()
	}
	if it.Kind != "create" && it.Kind != "ain" && (it.Kind != "uin" || it.AOut != nil) {
		m["to"] = it.To.Hex()
	}
	if it.Token != lkc {
		m["token"] = it.Token.Hex()
	}
	if it.Value != nil {
		m["value"] = it.Value.String()
	}
	if len(it.Data) > 0 {
		m["data"] = fmt.Sprintf("%x", it.Data)
	}
	if it.Gas != 0 {
		m["gas"] = it.Gas
	}
	if it.Ctor != "" {
		m["ctor"] = it.Ctor
		if it.LowGas {
			m["lowgas"] = true
		}
		if it.Create != nil {
			m["contract"] = it.Create.Kind.String()
		}
	}
	if it.Fee != nil {
		m["fee"] = it.Fee.String()
	}
	if it.Ain != nil {
		m["ain"] = it.Ain.String()
	}
	if len(it.Ins) > 0 {
		var ins []string
		for _, o := range it.Ins {
			ins = append(ins, o.Amount.String())
		}
		m["uin"] = ins
		m["ring"] = it.Ring
	}
	if len(it.UOuts) > 0 {
		var outs []string
		for _, o := range it.UOuts {
			outs = append(outs, o.String())
		}
		m["uout"] = outs
	}
	if it.AOut != nil {
		m["aout"] = it.AOut.String()
	}
	return m
}

// ---------------------------------------------------------------- generator

func (w *world) lkcValue() *big.Int {
	switch w.r.Intn(12) {
	case 0:
		return big.NewInt(0)
	case 1:
		return big.NewInt(1)
	case 2:
		return new(big.Int).Sub(unit, big.NewInt(1))
	case 3:
		return new(big.Int).Sub(e18, big.NewInt(1))
	case 4:
		return lk(1)
	case 5:
		return new(big.Int).Add(lk(1), big.NewInt(1))
	case 6:
		return lk(3)
	case 7:
		return lk(25)
	case 8:
		return new(big.Int).Add(lk(1234), big.NewInt(567))
	case 9:
		return lk(int64(w.r.Range(1, 400)))
	case 10:
		if w.r.Chance(0.2) {
			return lk(100000) // fee hits the 5e9 gas cap
		}
		return lk(7)
	}
	return new(big.Int).SetUint64(w.r.Uint64() % 5000000000000000000)
}

func (w *world) smallValue() *big.Int {
	switch w.r.Intn(6) {
	case 0, 1:
		return big.NewInt(0)
	case 2:
		return big.NewInt(1)
	case 3:
		return lk(1)
	case 4:
		return lk(5)
	}
	return new(big.Int).Add(lk(2), big.NewInt(int64(w.r.Intn(1000000))))
}

func intrinsic(data []byte, create bool) uint64 {
	g, _ := types.IntrinsicGas(data, create, cfg.EvmGasRate)
	return g
}

func feeGas(v *big.Int) uint64 { return types.CalNewAmountGas(v, types.EverLiankeFee) }

// submit hands tx to the real mempool of the proposer node; on success the intent is remembered.
func (w *world) submit(pending map[common.Hash]*intent, tx types.Tx, it *intent) bool {
	err := w.p.Mempool.AddTx("", tx)
	if err != nil {
		w.c.Count("mempool_rejected:"+it.Kind, 1)
		w.c.Logf("mempool rejected %s: %v", it.Kind, err)
		for _, o := range it.Ins {
			o.Pending = false
		}
		return false
	}
	if it.acct >= 0 {
		w.nonce[it.acct]++
	}
	pending[tx.Hash()] = it
	w.c.Count("submitted:"+it.Kind, 1)
	return true
}

func (w *world) genTransfer(pending map[common.Hash]*intent) {
	a := w.r.Intn(numAccounts)
	to := w.anyEOA()
	if w.r.Chance(0.1) {
		to = w.acct(a).Addr // to itself
	}
	v := w.lkcValue()
	if w.r.Chance(0.12) {
		// a hand-made transfer that bids more than the network gas price (no constructor of the repository makes
		// one; it arrives over RPC / p2p). Gas is bought and refunded at the transaction's price while the fee
		// collector is credited at the network price: if such a transaction is admitted at all, the ledger
		// oracles below decide whether value was conserved.
		tx := types.NewTransaction(w.nonce[a], to, v, chainkit.TransferGas(v), big.NewInt(types.ParGasPrice), nil)
		bid := new(big.Int).Add(big.NewInt(types.ParGasPrice), big.NewInt(int64(1+w.r.Intn(3))*int64(w.r.Range(1, int(types.ParGasPrice)))))
		setTxPrice(tx, bid)
		if tx.GasPrice().Cmp(bid) != 0 {
			w.c.Count("harness_price_not_settable", 1)
			return
		}
		if err := tx.Sign(types.GlobalSTDSigner, w.acct(a).Key); err != nil {
			return
		}
		w.c.Count("offered:transfer-gas-price-above-network-price", 1)
		if w.submit(pending, tx, &intent{Kind: "transfer", From: w.acct(a).Addr, To: to, Token: lkc, Value: v, Gas: tx.Gas(), acct: a}) {
			w.c.Count("admitted:transfer-gas-price-above-network-price", 1)
		}
		return
	}
	tx, err := chainkit.NewTransfer(w.acct(a), w.nonce[a], to, v)
	if err != nil {
		return
	}
	w.submit(pending, tx, &intent{Kind: "transfer", From: w.acct(a).Addr, To: to, Token: lkc, Value: v, Gas: tx.Gas(), acct: a})
}

// setTxPrice sets the (unexported) gas price of a transaction the way a decoder does.
func setTxPrice(tx *types.Transaction, p *big.Int) {
	f := reflect.ValueOf(tx).Elem().FieldByName("data").FieldByName("Price")
	reflect.NewAt(f.Type(), unsafe.Pointer(f.UnsafeAddr())).Elem().Set(reflect.ValueOf(p))
}

func (w *world) tokenValue(a int, t common.Address) *big.Int {
	bal := w.cur.get(w.acct(a).Addr, t)
	switch w.r.Intn(5) {
	case 0:
		return big.NewInt(1)
	case 1:
		return big.NewInt(1000)
	case 2:
		return new(big.Int).Div(bal, big.NewInt(int64(w.r.Range(2, 9))))
	case 3:
		return big.NewInt(0)
	}
	return big.NewInt(int64(w.r.Intn(100000)))
}

func (w *world) genToken(pending map[common.Hash]*intent) {
	a := w.r.Intn(numAccounts)
	t := w.tokens[w.r.Intn(len(w.tokens))]
	v := w.tokenValue(a, t)
	var to common.Address
	var data []byte
	gas := uint64(types.MinGasLimit)
	kind := "token"
	targets := []ckind{kSink, kGate}
	if w.r.Chance(0.4) {
		// token value sent into a call that fails (REVERT / out of gas / invalid opcode): the credit of a
		// token the contract never held has to be undone with the rest of the frame
		targets = []ckind{kReverter, kLooper, kInvalid}
	}
	if cs := w.liveContracts(targets...); len(cs) > 0 && w.r.Chance(0.35) {
		ci := cs[w.r.Intn(len(cs))]
		to = ci.Addr
		kind = "tokencall"
		if ci.Kind == kGate && w.r.Chance(0.4) {
			data = []byte{1}
		}
		gas = 400000 + 2*feeGas(new(big.Int).Add(w.cur.get(ci.Addr, lkc), lk(100)))
		if ci.Kind == kGate && w.r.Chance(0.35) {
			// too little gas for the callee's first instructions: the frame fails AFTER the token value was
			// credited to a contract that (mostly) never held this token; later transactions of the same
			// block (plain calls, the self-destruct path) touch the same contract
			gas = intrinsic(data, false) + uint64(w.r.Intn(8))
			kind = "tokencall-lowgas"
		}
	} else {
		to = w.anyEOA()
	}
	tx := types.NewTokenTransaction(t, w.nonce[a], to, v, gas, price, data)
	if err := tx.Sign(types.GlobalSTDSigner, w.acct(a).Key); err != nil {
		return
	}
	ik := kind
	if ik == "tokencall-lowgas" {
		ik = "tokencall"
	}
	if w.submit(pending, tx, &intent{Kind: ik, From: w.acct(a).Addr, To: to, Token: t, Value: v, Data: data, Gas: gas, acct: a}) && kind != ik {
		w.c.Count("submitted:"+kind, 1)
	}
}

func (w *world) genCreate(pending map[common.Hash]*intent) {
	a := w.r.Intn(numAccounts)
	v := w.smallValue()
	it := &intent{Kind: "create", From: w.acct(a).Addr, Token: lkc, Value: v, acct: a}
	var code []byte
	switch x := w.r.Intn(20); {
	case x == 0:
		it.Ctor, code = "revert", initRevert()
	case x == 1:
		it.Ctor, code = "invalid", initInvalid()
	case x == 2 || x == 3:
		it.Ctor, code = "selfsuicide", initSelfSuicide()
	default:
		it.Ctor = "deploy"
		ci := &contractInfo{Kind: ckind(w.r.Intn(int(kNumKinds)))}
		if w.r.Chance(0.35) {
			ci.Kind = kGate
		}
		var rt []byte
		switch ci.Kind {
		case kSink:
			rt = runtimeSink()
		case kReverter:
			rt = runtimeReverter()
		case kLooper:
			rt = runtimeLooper()
		case kInvalid:
			rt = runtimeInvalid()
		case kForwarder:
			if sinks := w.liveContracts(kSink, kGate); len(sinks) > 0 && w.r.Chance(0.5) {
				ci.Target = sinks[w.r.Intn(len(sinks))].Addr
			} else {
				ci.Target = w.anyEOA()
			}
			rt = runtimeForwarder(ci.Target)
		case kGate:
			switch {
			case w.r.Chance(0.4):
				ci.Self = true
			case w.r.Chance(0.4) && len(w.liveContracts(kSink, kGate)) > 0:
				s := w.liveContracts(kSink, kGate)
				ci.Target = s[w.r.Intn(len(s))].Addr
			default:
				ci.Target = w.anyEOA()
			}
			rt = runtimeGate(ci.Target, ci.Self)
		case kIssuer:
			rt = runtimeIssuer()
		}
		it.Create = ci
		code = initCode(rt)
	}
	gas := 1000000 + types.CalNewAmountGas(v, types.EverContractLiankeFee)
	if w.r.Chance(0.07) {
		it.LowGas = true
		gas = intrinsic(code, true) + 10
		if v.Sign() > 0 && gas < feeGas(v) {
			gas = feeGas(v)
		}
	}
	it.Gas, it.Data = gas, code
	tx, err := chainkit.NewContractCreation(w.acct(a), w.nonce[a], v, gas, code)
	if err != nil {
		return
	}
	// the address of the contract-to-be is predictable: sometimes another account pays tokens (and coin) to it
	// first, in the same block or an earlier one
	if it.Ctor == "deploy" && !it.LowGas && w.r.Chance(0.25) {
		b := (a + 1 + w.r.Intn(numAccounts-1)) % numAccounts
		addr := crypto.CreateAddress(w.acct(a).Addr, w.nonce[a], code)
		t := w.tokens[w.r.Intn(len(w.tokens))]
		if pv := w.tokenValue(b, t); pv.Sign() > 0 {
			ptx := types.NewTokenTransaction(t, w.nonce[b], addr, pv, uint64(types.MinGasLimit), price, nil)
			if ptx.Sign(types.GlobalSTDSigner, w.acct(b).Key) == nil {
				if w.submit(pending, ptx, &intent{Kind: "token", From: w.acct(b).Addr, To: addr, Token: t, Value: pv, Gas: uint64(types.MinGasLimit), acct: b}) {
					w.c.Count("submitted:token-to-address-of-contract-to-be", 1)
				}
			}
		}
	}
	w.submit(pending, tx, it)
}

func (w *world) genCall(pending map[common.Hash]*intent, killedNow map[common.Address]bool) {
	cs := w.liveContracts()
	if len(cs) == 0 {
		w.genCreate(pending)
		return
	}
	ci := cs[w.r.Intn(len(cs))]
	// prefer a contract that an earlier transaction of this very block kills (value sent to a
	// self-destructed contract inside the same block)
	if len(killedNow) > 0 && w.r.Chance(0.5) {
		for _, c := range cs {
			if killedNow[c.Addr] {
				ci = c
				break
			}
		}
	}
	a := w.r.Intn(numAccounts)
	v := w.smallValue()
	var data []byte
	switch ci.Kind {
	case kGate:
		if w.r.Chance(0.45) {
			data = []byte{1}
			killedNow[ci.Addr] = true
		}
	case kIssuer:
		if w.r.Chance(0.8) {
			n := new(big.Int).SetUint64(w.r.Uint64() % 1000000000)
			switch w.r.Intn(6) {
			case 0:
				n = big.NewInt(0)
			case 1:
				n = new(big.Int).Lsh(big.NewInt(1), 64)
			case 2:
				n = new(big.Int).Lsh(big.NewInt(1), 200)
			}
			data = word32(n)
			if w.r.Chance(0.8) {
				v = big.NewInt(0)
			}
		} else {
			data = []byte{0x31, 0x3c, 0xe5, 0x67} // decimals()
		}
	}
	hold := new(big.Int).Add(w.cur.get(ci.Addr, lkc), v)
	gas := 400000 + 2*feeGas(new(big.Int).Add(hold, lk(100))) + 2*feeGas(v)
	if ci.Kind == kLooper || ci.Kind == kInvalid {
		gas = 60000 + uint64(w.r.Intn(100000))
	}
	low := false
	if w.r.Chance(0.1) {
		low = true
		gas = intrinsic(data, false) + uint64(w.r.Intn(60))
	}
	if v.Sign() > 0 {
		if m := types.CalNewAmountGas(v, types.EverContractLiankeFee); gas < m {
			gas = m
		}
	}
	tx, err := chainkit.NewCall(w.acct(a), w.nonce[a], ci.Addr, v, gas, data)
	if err != nil {
		return
	}
	kind := "call"
	if low {
		kind = "call-lowgas"
	}
	it := &intent{Kind: "call", From: w.acct(a).Addr, To: ci.Addr, Token: lkc, Value: v, Data: data, Gas: gas, acct: a}
	if w.submit(pending, tx, it) {
		w.c.Count("call_target:"+ci.Kind.String(), 1)
		if kind != "call" {
			w.c.Count("submitted:"+kind, 1)
		}
	}
}

// uAmount: a confidential amount (multiple of the 10^10 unit), big enough to pay the 50 LKC U->U fee later.
func (w *world) uAmount() *big.Int {
	base := lk(int64(w.r.Range(60, 900)))
	switch w.r.Intn(4) {
	case 0:
		return base
	case 1:
		return new(big.Int).Add(base, unit)
	case 2:
		return new(big.Int).Add(base, new(big.Int).Mul(unit, big.NewInt(int64(w.r.Intn(100000000)))))
	}
	return lk(int64(w.r.Range(1, 40))) // small: can only be spent together with others or to an account
}

func (w *world) extraFee() *big.Int {
	switch w.r.Intn(5) {
	case 0:
		return new(big.Int).Set(price)
	case 1:
		return new(big.Int).Mul(price, big.NewInt(1000))
	case 2:
		return new(big.Int).Mul(price, big.NewInt(int64(w.r.Range(1, 50000000))))
	}
	return big.NewInt(0)
}

func (w *world) genAin(pending map[common.Hash]*intent) {
	a := w.r.Intn(numAccounts)
	n := w.r.Range(1, 3)
	if w.r.Chance(0.1) {
		n = w.r.Range(4, 6)
	}
	var dests []types.DestEntry
	var outs []*big.Int
	sum := new(big.Int)
	for i := 0; i < n; i++ {
		amt := w.uAmount()
		wl := w.wallets[w.r.Intn(len(w.wallets))]
		dests = append(dests, chainkit.Dest(wl, uint64(w.r.Intn(len(wl.Subs))), amt))
		outs = append(outs, amt)
		sum.Add(sum, amt)
	}
	fee := new(big.Int).Add(chainkit.UtxoFeeAinToU(sum), w.extraFee())
	tx, err := chainkit.NewAinTx(w.acct(a), w.nonce[a], dests, fee)
	if err != nil {
		w.c.Logf("NewAinTx: %v", err)
		return
	}
	w.submit(pending, tx, &intent{Kind: "ain", From: w.acct(a).Addr, Token: lkc, Fee: fee, Ain: new(big.Int).Add(sum, fee), UOuts: outs, acct: a})
}

func (w *world) pickIns(max int) (*chainkit.UWallet, []*chainkit.OwnedOut, *big.Int) {
	off := w.r.Intn(len(w.wallets))
	for k := 0; k < len(w.wallets); k++ {
		wl := w.wallets[(off+k)%len(w.wallets)]
		sp := w.led.Spendable(wl, lkc)
		if len(sp) == 0 {
			continue
		}
		n := w.r.Range(1, max)
		if n > len(sp) {
			n = len(sp)
		}
		perm := w.r.Perm(len(sp))
		var ins []*chainkit.OwnedOut
		sum := new(big.Int)
		for _, i := range perm[:n] {
			ins = append(ins, sp[i])
			sum.Add(sum, sp[i].Amount)
		}
		return wl, ins, sum
	}
	return nil, nil, nil
}

func (w *world) ringSize() int {
	pool := len(w.led.Outs[lkc])
	if pool < 2 || w.r.Chance(0.4) {
		return 1
	}
	max := 11
	if pool < max {
		max = pool
	}
	return w.r.Range(2, max)
}

func roundUnit(v *big.Int) *big.Int {
	return new(big.Int).Mul(new(big.Int).Div(v, unit), unit)
}

func (w *world) genUinU(pending map[common.Hash]*intent) {
	wl, ins, sum := w.pickIns(3)
	if wl == nil {
		return
	}
	fee := new(big.Int).Add(chainkit.UtxoFeeUinToU(w.p.App.GetUTXOGas()), w.extraFee())
	rest := new(big.Int).Sub(sum, fee)
	if rest.Sign() <= 0 {
		return
	}
	var dests []types.DestEntry
	var outs []*big.Int
	add := func(amt *big.Int) {
		to := w.wallets[w.r.Intn(len(w.wallets))]
		dests = append(dests, chainkit.Dest(to, uint64(w.r.Intn(len(to.Subs))), amt))
		outs = append(outs, amt)
	}
	nout := w.r.Range(1, 3)
	for i := 1; i < nout && rest.Cmp(unit) > 0; i++ {
		part := roundUnit(new(big.Int).Div(rest, big.NewInt(int64(w.r.Range(2, 5)))))
		if part.Sign() <= 0 {
			break
		}
		add(part)
		rest.Sub(rest, part)
	}
	add(rest)
	ring := w.ringSize()
	for _, o := range ins {
		o.Pending = true
	}
	tx, err := w.led.NewUinTx(w.r, wl, ins, ring, dests)
	if err != nil {
		w.c.Logf("NewUinTx U->U: %v", err)
		for _, o := range ins {
			o.Pending = false
		}
		return
	}
	if w.submit(pending, tx, &intent{Kind: "uin", Token: lkc, Fee: fee, Ins: ins, UOuts: outs, Ring: ring, acct: -1}) {
		w.c.Count("uin_u", 1)
		w.countRing(ring)
	}
}

func (w *world) countRing(ring int) {
	if ring == 1 {
		w.c.Count("uin_ring1", 1)
	} else {
		w.c.Count("uin_ring_gt1", 1)
	}
}

func (w *world) genUinA(pending map[common.Hash]*intent) {
	wl, ins, sum := w.pickIns(2)
	if wl == nil {
		return
	}
	to := w.anyEOA()
	var dests []types.DestEntry
	var outs []*big.Int
	var aout, fee *big.Int
	feeU := chainkit.UtxoFeeUinToU(w.p.App.GetUTXOGas())
	if w.r.Chance(0.4) && sum.Cmp(new(big.Int).Add(feeU, lk(3))) > 0 {
		// with a confidential change output: both fee components are due
		avail := new(big.Int).Sub(sum, feeU)
		aout = roundUnit(new(big.Int).Div(avail, big.NewInt(int64(w.r.Range(2, 6)))))
		fee = new(big.Int).Add(feeU, chainkit.UtxoFeeUinToA(aout))
		fee.Add(fee, w.extraFee())
		change := new(big.Int).Sub(sum, new(big.Int).Add(aout, fee))
		if change.Sign() <= 0 || aout.Sign() <= 0 {
			return
		}
		dests = append(dests, &types.AccountDestEntry{To: to, Amount: aout})
		dests = append(dests, chainkit.Dest(wl, uint64(w.r.Intn(len(wl.Subs))), change))
		outs = append(outs, change)
		if w.r.Chance(0.5) {
			dests[0], dests[1] = dests[1], dests[0]
		}
	} else {
		fee = new(big.Int).Add(chainkit.UtxoFeeUinToA(sum), w.extraFee())
		aout = new(big.Int).Sub(sum, fee)
		if aout.Sign() <= 0 {
			return
		}
		dests = append(dests, &types.AccountDestEntry{To: to, Amount: aout})
	}
	ring := w.ringSize()
	for _, o := range ins {
		o.Pending = true
	}
	tx, err := w.led.NewUinTx(w.r, wl, ins, ring, dests)
	if err != nil {
		w.c.Logf("NewUinTx U->A: %v", err)
		for _, o := range ins {
			o.Pending = false
		}
		return
	}
	if w.submit(pending, tx, &intent{Kind: "uin", To: to, Token: lkc, Fee: fee, Ins: ins, UOuts: outs, AOut: aout, Ring: ring, acct: -1}) {
		w.c.Count("uin_a", 1)
		w.countRing(ring)
	}
}

// genBlockTxs fills the mempool for the next height.
func (w *world) genBlockTxs(height int) map[common.Hash]*intent {
	pending := map[common.Hash]*intent{}
	killedNow := map[common.Address]bool{}
	n := w.r.Range(3, 12)
	if height == 1 {
		// seed the hidden pool and the contract zoo
		for i := 0; i < 4; i++ {
			w.genAin(pending)
		}
		for i := 0; i < 4; i++ {
			w.genCreate(pending)
		}
	}
	if w.r.Chance(0.08) {
		n = 1 // single-transaction block: the per-block laws are per-transaction laws
	}
	for i := 0; i < n; i++ {
		switch x := w.r.Intn(100); {
		case x < 12:
			w.genTransfer(pending)
		case x < 24:
			w.genToken(pending)
		case x < 38:
			w.genCreate(pending)
		case x < 62:
			w.genCall(pending, killedNow)
		case x < 74:
			w.genAin(pending)
		case x < 88:
			w.genUinU(pending)
		default:
			w.genUinA(pending)
		}
	}
	return pending
}

// ---------------------------------------------------------------- reference ledger

type blockModel struct {
	bal        balances
	hidden     *big.Int
	fees       *big.Int
	destroyed  map[common.Address]*big.Int // by self-destruct in favour of itself (designed exception)
	issued     map[common.Address]*big.Int // by ISSUE (designed exception)
	toKilled   map[common.Address]*big.Int // asset -> value delivered to a contract after it self-destructed earlier in the same block
	toKilledEv []map[string]interface{}
	wiped      map[common.Address]*big.Int // token -> value an address held when a contract was created on top of it
	wipedEv    []map[string]interface{}
	txIndex    int
	failed     int
	notes      []string
}

func addTo(m map[common.Address]*big.Int, k common.Address, v *big.Int) {
	if m[k] == nil {
		m[k] = new(big.Int)
	}
	m[k].Add(m[k], v)
}

// deliver applies what a successful transfer of (token, v) with calldata to `to` does, according to
// the generator's knowledge of the purpose-built contracts.
func (w *world) deliver(m *blockModel, from, to, token common.Address, v *big.Int, data []byte) {
	ci := w.byAddr[to]
	if ci == nil || ci.Dead {
		m.bal.add(to, token, v)
		return
	}
	switch ci.Kind {
	case kSink:
		w.credit(m, to, token, v)
	case kForwarder:
		if token == lkc {
			w.deliver(m, to, ci.Target, lkc, v, nil) // inner CALL: the target's code runs
		} else {
			m.notes = append(m.notes, "token call to a forwarder succeeded")
			w.credit(m, to, token, v)
		}
	case kGate:
		w.credit(m, to, token, v)
		if len(data) > 0 {
			first := !ci.killed
			for t, amt := range m.bal[to] {
				if amt.Sign() == 0 {
					continue
				}
				m.bal[to][t] = new(big.Int)
				if ci.Self {
					addTo(m.destroyed, t, amt)
				} else {
					w.credit(m, ci.Target, t, amt) // SELFDESTRUCT credits the beneficiary without running its code
				}
			}
			if first {
				ci.killed, ci.killedBy = true, m.txIndex
			}
			ci.postKill = nil // whatever arrived after an earlier kill has just been moved out again
		}
	case kIssuer:
		w.credit(m, to, token, v)
		if len(data) == 32 {
			n := new(big.Int).SetBytes(data)
			if n.Sign() > 0 {
				addTo(m.issued, to, n)
				m.bal.add(from, to, n) // ISSUE n of token `to`, TRANSFERTOKEN to the caller
			}
		}
	default:
		m.notes = append(m.notes, fmt.Sprintf("call to a %s contract succeeded", ci.Kind))
		w.credit(m, to, token, v)
	}
}

// credit books a plain credit. The property says value is conserved, so the reference ledger keeps a
// credit to a contract that self-destructed earlier in the same block on that address; such credits
// are remembered (the node is known to delete them together with the contract at the end of the block).
func (w *world) credit(m *blockModel, to, token common.Address, v *big.Int) {
	m.bal.add(to, token, v)
	ci := w.byAddr[to]
	if ci == nil || ci.Dead || !ci.killed || v.Sign() <= 0 {
		return
	}
	if ci.postKill == nil {
		ci.postKill = map[common.Address]*big.Int{}
	}
	addTo(ci.postKill, token, v)
	m.toKilledEv = append(m.toKilledEv, map[string]interface{}{"contract": to.Hex(), "selfdestructed_by_tx": ci.killedBy, "credited_by_tx": m.txIndex, "asset": token.Hex(), "value": v.String()})
}

// replay predicts every balance after the block from the balances before it, the transactions in
// block order, the receipts' status and gasUsed (observed) and the generator's intent.
func (w *world) replay(res *stepResult, pending map[common.Hash]*intent) (*blockModel, []map[string]interface{}, error) {
	m := &blockModel{bal: w.cur.clone(), hidden: new(big.Int).Set(w.hidden), fees: new(big.Int),
		destroyed: map[common.Address]*big.Int{}, issued: map[common.Address]*big.Int{}, toKilled: map[common.Address]*big.Int{}, wiped: map[common.Address]*big.Int{}}
	txs := res.Block.Data.Txs
	if len(res.Receipts) != len(txs) {
		return nil, nil, fmt.Errorf("%d receipts for %d txs", len(res.Receipts), len(txs))
	}
	var trace []map[string]interface{}
	for i, tx := range txs {
		it := pending[tx.Hash()]
		if it == nil {
			return nil, nil, fmt.Errorf("block tx %d (%s) is not one of the generated transactions", i, tx.TypeName())
		}
		m.txIndex = i
		rc := res.Receipts[i]
		ok := rc.Status == types.ReceiptStatusSuccessful
		fee := new(big.Int).Mul(new(big.Int).SetUint64(rc.GasUsed), price)
		m.fees.Add(m.fees, fee)
		tr := it.brief()
		tr["ok"], tr["gasUsed"] = ok, rc.GasUsed
		if !ok {
			tr["vmerr"] = rc.VMErr
			m.failed++
		}
		trace = append(trace, tr)
		delete(pending, tx.Hash())
		switch it.Kind {
		case "transfer", "call", "token", "tokencall":
			if it.Kind == "tokencall" && !ok && it.Value.Sign() > 0 {
				w.c.Count("failed_token_calls_with_value", 1)
				w.c.Count("failed_token_calls_with_value:"+rc.VMErr, 1)
			}
			m.bal.sub(it.From, lkc, fee)
			if ok {
				m.bal.sub(it.From, it.Token, it.Value)
				w.deliver(m, it.From, it.To, it.Token, it.Value, it.Data)
			}
		case "create":
			m.bal.sub(it.From, lkc, fee)
			if !ok {
				break
			}
			m.bal.sub(it.From, lkc, it.Value)
			switch {
			case it.Ctor == "selfsuicide":
				addTo(m.destroyed, lkc, it.Value)
			case it.Create != nil && it.Ctor == "deploy":
				ci := *it.Create
				ci.Addr = rc.ContractAddress
				if ci.Addr == lkc {
					return nil, nil, fmt.Errorf("successful creation without contract address in the receipt")
				}
				// tokens the address already held (it is predictable: CreateAddress(sender, nonce, code), anybody can
				// pay to it beforehand) have to survive the creation like the native coin does
				for t, amt := range m.bal[ci.Addr] {
					if t != lkc && amt.Sign() > 0 {
						addTo(m.wiped, t, amt)
						m.wipedEv = append(m.wipedEv, map[string]interface{}{"address": ci.Addr.Hex(), "created_by_tx": m.txIndex, "token": t.Hex(), "held": amt.String()})
						w.c.Count("creations_over_token_holding_address", 1)
					}
				}
				m.bal.add(ci.Addr, lkc, it.Value)
				w.know(ci.Addr)
				w.contracts = append(w.contracts, &ci)
				w.byAddr[ci.Addr] = &ci
				if ci.Kind == kIssuer {
					w.tokens = append(w.tokens, ci.Addr)
				}
				w.c.Count("contracts_deployed:"+ci.Kind.String(), 1)
			default:
				m.notes = append(m.notes, "constructor "+it.Ctor+" succeeded")
				w.know(rc.ContractAddress)
				m.bal.add(rc.ContractAddress, lkc, it.Value)
			}
		case "ain":
			if !ok || fee.Cmp(it.Fee) != 0 {
				m.notes = append(m.notes, fmt.Sprintf("A->U: ok=%v charged %v, fee field %v", ok, fee, it.Fee))
			}
			m.bal.sub(it.From, lkc, it.Ain)
			for _, o := range it.UOuts {
				m.hidden.Add(m.hidden, o)
			}
		case "uin":
			if !ok || fee.Cmp(it.Fee) != 0 {
				m.notes = append(m.notes, fmt.Sprintf("U-in: ok=%v charged %v, fee field %v", ok, fee, it.Fee))
			}
			for _, o := range it.Ins {
				m.hidden.Sub(m.hidden, o.Amount)
			}
			for _, o := range it.UOuts {
				m.hidden.Add(m.hidden, o)
			}
			if it.AOut != nil {
				m.bal.add(it.To, lkc, it.AOut)
			}
		}
	}
	m.bal.add(cfg.ContractFoundationAddr, lkc, m.fees)
	for _, ci := range w.contracts {
		for t, v := range ci.postKill {
			addTo(m.toKilled, t, v)
		}
		ci.postKill = nil
	}
	return m, trace, nil
}

// ---------------------------------------------------------------- oracle

func assetName(t common.Address) string {
	if t == lkc {
		return "lkc"
	}
	return "token"
}

// checkBlock compares the observed post-state with the laws and with the reference ledger.
func (w *world) checkBlock(res *stepResult, m *blockModel, trace []map[string]interface{}, before balances, hiddenBefore *big.Int) (fatal bool) {
	c := w.c
	burned, wipedSeen := false, false
	after, hiddenAfter := w.cur, w.hidden
	wit := func(extra map[string]interface{}) map[string]interface{} {
		out := map[string]interface{}{"height": res.Block.Height, "txs": trace}
		for k, v := range extra {
			out[k] = v
		}
		return out
	}
	// (1) conservation of every asset
	tb, ta := before.totals(), after.totals()
	assets := map[common.Address]bool{lkc: true}
	for t := range tb {
		assets[t] = true
	}
	for t := range ta {
		assets[t] = true
	}
	for _, t := range sortedAddrs(assets) {
		want := new(big.Int)
		if tb[t] != nil {
			want.Set(tb[t])
		}
		got := new(big.Int)
		if ta[t] != nil {
			got.Set(ta[t])
		}
		if t == lkc {
			want.Add(want, hiddenBefore)
			got.Add(got, hiddenAfter)
		}
		if d := m.destroyed[t]; d != nil {
			want.Sub(want, d)
			c.Count("selfdestruct_to_self_destroyed_assets", 1)
		}
		if d := m.issued[t]; d != nil {
			want.Add(want, d)
			c.Count("issue_events", 1)
		}
		c.Count("conservation_checks", 1)
		if got.Cmp(want) == 0 {
			continue
		}
		diff := new(big.Int).Sub(got, want)
		key := "conservation/" + assetName(t) + "/created"
		if diff.Sign() < 0 {
			key = "conservation/" + assetName(t) + "/destroyed"
			if k := m.wiped[t]; k != nil && new(big.Int).Neg(diff).Cmp(k) == 0 {
				// exactly the tokens that addresses held when contracts were created on top of them
				wipedSeen = true
				c.Count("tokens_wiped_by_creation_over_holder", 1)
				c.Violation(keyWipe, fmt.Sprintf("height %d token %s: %v held by address(es) on which a contract was then created vanished with the creation (supply %v, law demands %v)",
					res.Block.Height, t.Hex(), k, got, want), map[string]interface{}{"height": res.Block.Height, "events": m.wipedEv, "txs": trace})
				continue
			}
			if kw, kk := m.wiped[t], m.toKilled[t]; kw != nil && kk != nil && new(big.Int).Neg(diff).Cmp(new(big.Int).Add(kw, kk)) == 0 {
				// both known classes hit the same asset in one block: the loss is exactly their sum (seen once, thorough
				// tier at seed 2, case 134: 37946 units sent to a contract killed earlier in the block + 1 unit wiped by a
				// creation); each is reported under its own key
				wipedSeen, burned = true, true
				c.Count("tokens_wiped_by_creation_over_holder", 1)
				c.Count("burned_after_selfdestruct_in_same_block", 1)
				c.Violation(keyWipe, fmt.Sprintf("height %d token %s: %v held by address(es) on which a contract was then created vanished with the creation (supply %v, law demands %v, of which %v burned after a self-destruct)",
					res.Block.Height, t.Hex(), kw, got, want, kk), map[string]interface{}{"height": res.Block.Height, "events": m.wipedEv, "txs": trace})
				c.Violation(keyBurn, fmt.Sprintf("height %d asset %s: %v sent to a contract that self-destructed earlier in the same block vanished at the end of the block (supply %v, law demands %v, of which %v wiped by a creation)",
					res.Block.Height, t.Hex(), kk, got, want, kw), map[string]interface{}{"height": res.Block.Height, "events": m.toKilledEv, "txs": trace})
				continue
			}
			if k := m.toKilled[t]; k != nil && new(big.Int).Neg(diff).Cmp(k) == 0 {
				// exactly the value that was sent to contracts which an earlier transaction of the same
				// block had self-destructed: a known class, reported once; the chain goes on
				burned = true
				c.Count("burned_after_selfdestruct_in_same_block", 1)
				c.Violation(keyBurn, fmt.Sprintf("height %d asset %s: %v sent to a contract that self-destructed earlier in the same block vanished at the end of the block (supply %v, law demands %v)",
					res.Block.Height, t.Hex(), k, got, want), map[string]interface{}{"height": res.Block.Height, "events": m.toKilledEv, "txs": trace})
				continue
			}
		}
		fatal = true
		c.Violation(key, fmt.Sprintf("height %d asset %s: supply (accounts+hidden) is %v, law demands %v (diff %v; designed destruction %v, issuance %v)",
			res.Block.Height, t.Hex(), got, want, diff, m.destroyed[t], m.issued[t]), wit(map[string]interface{}{"asset": t.Hex(), "diff": diff.String()}))
	}
	// (2) fees debited == fees credited to the collector
	fd := new(big.Int).Sub(after.get(cfg.ContractFoundationAddr, lkc), before.get(cfg.ContractFoundationAddr, lkc))
	c.Count("fee_checks", 1)
	if fd.Cmp(m.fees) != 0 {
		fatal = true
		c.Violation("fees/collector-credit-differs-from-gas-charged", fmt.Sprintf("height %d: fee collector balance changed by %v, receipts charge %v", res.Block.Height, fd, m.fees), wit(nil))
	}
	// (3) hidden pool: account side of A->U / U->A == change of the hidden pool
	c.Count("hidden_pool_checks", 1)
	if hiddenAfter.Cmp(m.hidden) != 0 {
		fatal = true
		c.Violation("hidden-pool/differs-from-account-side", fmt.Sprintf("height %d: hidden pool holds %v, account side and fees imply %v", res.Block.Height, hiddenAfter, m.hidden), wit(nil))
	}
	// (4) every single balance (failed calls move nothing but fees, value goes where the contract sends it)
	seen := map[common.Address]bool{}
	for a := range after {
		seen[a] = true
	}
	for a := range m.bal {
		seen[a] = true
	}
	var diffs []map[string]string
	for _, a := range sortedAddrs(seen) {
		ts := map[common.Address]bool{}
		for t := range after[a] {
			ts[t] = true
		}
		for t := range m.bal[a] {
			ts[t] = true
		}
		for _, t := range sortedAddrs(ts) {
			c.Count("balance_comparisons", 1)
			if after.get(a, t).Cmp(m.bal.get(a, t)) != 0 {
				diffs = append(diffs, map[string]string{"account": a.Hex(), "asset": t.Hex(), "observed": after.get(a, t).String(), "reference": m.bal.get(a, t).String(), "before": before.get(a, t).String()})
			}
		}
	}
	if wipedSeen {
		// the reference ledger keeps the wiped tokens on the new contract's address; nothing else may differ
		var rest []map[string]string
		for _, d := range diffs {
			hit := false
			for _, ev := range m.wipedEv {
				if ev["address"] == d["account"] && ev["token"] == d["asset"] {
					hit = true
				}
			}
			if !hit {
				rest = append(rest, d)
			}
		}
		diffs = rest
	}
	if burned {
		// the reference ledger keeps the burned value on the dead contract's address; nothing else may differ
		var rest []map[string]string
		for _, d := range diffs {
			dead := false
			for _, ev := range m.toKilledEv {
				if ev["contract"] == d["account"] {
					dead = true
				}
			}
			if !dead {
				rest = append(rest, d)
			}
		}
		diffs = rest
	}
	if len(diffs) > 0 && !fatal {
		fatal = true
		key := "ledger/account-balance-differs-from-reference"
		if m.failed > 0 && len(trace) == 1 {
			key = "ledger/failed-call-moved-value"
		}
		if len(diffs) > 8 {
			diffs = diffs[:8]
		}
		c.Violation(key, fmt.Sprintf("height %d: %d balances differ from the reference ledger", res.Block.Height, len(diffs)), wit(map[string]interface{}{"diffs": diffs}))
	}
	if len(m.notes) > 0 && !fatal {
		fatal = true
		c.Violation("ledger/unexpected-execution-status", fmt.Sprintf("height %d: %v", res.Block.Height, m.notes), wit(nil))
	}
	return fatal
}

const keyBurn = "conservation/value-sent-to-contract-selfdestructed-earlier-in-block-burned"
const keyWipe = "conservation/tokens-held-by-address-wiped-by-contract-creation"

// ---------------------------------------------------------------- the chain case

func runChain(c *core.Ctx) {
	w, err := newWorld(c, true)
	if err != nil {
		c.Inconclusive("setup: " + err.Error())
		return
	}
	defer w.close()
	heights := c.Rng.Range(5, 10)
	var kinds []string
	fp := ""
	mixed := 0 // blocks carrying both a confidential and a contract transaction
	for h := 1; h <= heights; h++ {
		pending := w.genBlockTxs(h)
		before, hiddenBefore := w.cur, w.hidden
		res, err := w.step()
		if err != nil {
			c.Inconclusive(fmt.Sprintf("height %d: %v", h, err))
			return
		}
		if w.led.Unknown != 0 {
			c.Inconclusive(fmt.Sprintf("height %d: %d confidential outputs are unknown to the generator's ledger", h, w.led.Unknown))
			return
		}
		m, trace, err := w.replay(res, pending) // reference ledger from the state BEFORE the block
		if err != nil {
			c.Inconclusive(fmt.Sprintf("height %d: %v", h, err))
			return
		}
		if err := w.observe(); err != nil {
			c.Inconclusive(fmt.Sprintf("height %d: %v", h, err))
			return
		}
		if len(pending) > 0 {
			// a submitted transaction stayed in the mempool: the nonce bookkeeping below would drift
			c.Count("txs_left_in_mempool", int64(len(pending)))
		}
		c.Count("blocks", 1)
		c.Count("txs_committed", int64(len(trace)))
		c.Count("txs_failed_status", int64(m.failed))
		conf, contract := false, false
		for _, t := range trace {
			switch t["kind"] {
			case "ain", "uin":
				conf = true
			case "call", "create", "tokencall":
				contract = true
			}
		}
		if conf && contract {
			mixed++
		}
		for _, t := range trace {
			k := fmt.Sprint(t["kind"])
			if t["ok"] == false {
				k += "!"
			}
			kinds = append(kinds, k)
		}
		if w.checkBlock(res, m, trace, before, hiddenBefore) {
			return
		}
		// contracts killed in this block have no code from now on
		for _, ci := range w.contracts {
			if ci.killed {
				ci.killed, ci.Dead = false, true
				c.Count("contracts_selfdestructed", 1)
			}
		}
		for i := range w.nonce {
			w.nonce[i] = w.p.App.GetNonce(w.acct(i).Addr)
		}
		fp += fmt.Sprintf("%d:%x;", len(trace), res.Block.Hash().Bytes()[:4])
		if len(pending) > 0 {
			c.Inconclusive(fmt.Sprintf("height %d: %d accepted transactions were not included in the block", h, len(pending)))
			return
		}
	}
	c.Count("chains", 1)
	c.Count("blocks_with_confidential_and_contract_txs", int64(mixed))
	if mixed == 0 {
		return
	}
	c.Nontrivial(fmt.Sprintf("chain-%d-%x", c.Index, hashString(fp)))
	if c.Index%16 == 0 {
		if len(kinds) > 60 {
			kinds = kinds[:60]
		}
		c.Sample(map[string]interface{}{"case": "chain", "heights": heights, "tx_kinds_in_block_order": kinds, "hidden_pool_end": w.hidden.String()})
	}
}

func hashString(s string) uint64 {
	h := uint64(1469598103934665603)
	for i := 0; i < len(s); i++ {
		h ^= uint64(s[i])
		h *= 1099511628211
	}
	return h
}
