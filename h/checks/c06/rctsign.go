package c06

import (
	"fmt"
	"math/big"

	"github.com/lianxiangcloud/linkchain/libs/cryptonote/ringct"
	lt "github.com/lianxiangcloud/linkchain/libs/cryptonote/types"
	"github.com/lianxiangcloud/linkchain/libs/cryptonote/xcrypto"
	"github.com/lianxiangcloud/linkchain/types"
)

// The spender's own signer: a line-by-line copy of types.UInTransWithRctSig / aInTransWithRctSig
// built from the same exported primitives, with hooks where a dishonest spender would deviate.
// With zero options it produces what the real builders produce (the "control-copy" variants prove
// that on every case: they must be accepted at both entry points).

type signOpts struct {
	real bool // use the repository's own signer instead of the copy (controls)
	// mlsagForShort: the tree under test signs ring size 1 with an MLSAG as well (detected from what
	// the real signer emits), so the copy does the same
	mlsagForShort bool

	inAmounts  []*big.Int       // amounts (wei) the pseudo-outs are made for; nil entry = the source's amount
	outAmounts []*big.Int       // amounts (wei) the output commitments / range proof are made for; nil = dest amount
	outPkAddH  map[int]*big.Int // after proving: OutPk[j] += k*H (k in units, may be >= 2^64)
	pseudoAddH map[int]*big.Int // before signing: PseudoOuts[i] += k*H
	extraPseud *big.Int         // before signing: append a pseudo-out k*H (no input behind it)
	foreignBP  *lt.Bulletproof  // before signing: replace the range proof by one made for another transaction

	pre  func(tx *types.UTXOTransaction) // after construction, before signing (signatures cover the change)
	mid  func(tx *types.UTXOTransaction) // A->U: after the RingCT part, before the account signature
	post func(tx *types.UTXOTransaction) // after signing (signatures do not cover the change)
}

// scalarOf returns k as a little-endian ed25519 scalar (k < group order).
func scalarOf(k *big.Int) lt.Key {
	var out lt.Key
	b := k.Bytes()
	for i := 0; i < len(b) && i < 32; i++ {
		out[i] = b[len(b)-1-i]
	}
	return out
}

func addH(p lt.Key, k *big.Int) lt.Key {
	r, _ := ringct.AddKeys(p, ringct.ScalarmultH(scalarOf(k)))
	return r
}

func unitsKey(wei *big.Int) (lt.Key, error) {
	return types.BigInt2Hash(new(big.Int).Div(wei, unit))
}

// proveOutputs fills OutPk / EcdhInfo / Bulletproofs for the given amounts and returns the sum of the masks.
func proveOutputs(tx *types.UTXOTransaction, amounts []*big.Int, mkeys lt.KeyV, o *signOpts) (lt.Key, error) {
	sumOutCF := ringct.Z
	if len(amounts) != len(mkeys) {
		return sumOutCF, fmt.Errorf("amounts and mkeys differ")
	}
	if len(amounts) == 0 {
		return sumOutCF, nil
	}
	keys := make(lt.KeyV, len(amounts))
	for i, a := range amounts {
		k, err := unitsKey(a)
		if err != nil {
			return sumOutCF, err
		}
		keys[i] = k
	}
	proof, commits, masks, err := ringct.ProveRangeBulletproof(keys, mkeys)
	if err != nil {
		return sumOutCF, types.ErrProveRangeBulletproof
	}
	proof.V = nil
	tx.RCTSig.P.Bulletproofs = append(tx.RCTSig.P.Bulletproofs, *proof)
	tx.RCTSig.OutPk = make(lt.CtkeyV, len(amounts))
	tx.RCTSig.EcdhInfo = make([]lt.EcdhTuple, len(amounts))
	for i := range amounts {
		sumOutCF = ringct.ScAdd(lt.EcScalar(masks[i]), lt.EcScalar(sumOutCF))
		tx.RCTSig.OutPk[i].Mask, _ = ringct.Scalarmult8(commits[i])
		tx.RCTSig.EcdhInfo[i].Mask = masks[i]
		tx.RCTSig.EcdhInfo[i].Amount = keys[i]
		if !ringct.EcdhEncode(&tx.RCTSig.EcdhInfo[i], mkeys[i], false) {
			return sumOutCF, types.ErrEcdhEncode
		}
	}
	for j, k := range o.outPkAddH {
		if j < len(tx.RCTSig.OutPk) {
			tx.RCTSig.OutPk[j].Mask = addH(tx.RCTSig.OutPk[j].Mask, k)
		}
	}
	if o.foreignBP != nil {
		bp := *o.foreignBP
		bp.V = nil
		tx.RCTSig.P.Bulletproofs[0] = bp
	}
	return sumOutCF, nil
}

func utxoDestAmounts(dests []types.DestEntry) []*big.Int {
	var out []*big.Int
	for _, d := range dests {
		if d.Type() == types.TypeUTXODest {
			out = append(out, d.GetAmount())
		}
	}
	return out
}

// rctSignUin: copy of types.UInTransWithRctSig with hooks.
func rctSignUin(tx *types.UTXOTransaction, sources []*types.UTXOSourceEntry, ephs []*types.UTXOInputEphemeral, dests []types.DestEntry, mkeys lt.KeyV, o *signOpts) error {
	amounts := utxoDestAmounts(dests)
	for i := range amounts {
		if i < len(o.outAmounts) && o.outAmounts[i] != nil {
			amounts[i] = o.outAmounts[i]
		}
	}
	sumOutCF, err := proveOutputs(tx, amounts, mkeys, o)
	if err != nil {
		return err
	}
	n := len(sources)
	inSKey := make(lt.CtkeyV, n)
	rings := make(lt.CtkeyM, n)
	indexs := make([]uint32, n)
	inAmounts := make([]lt.Key, n)
	for i := 0; i < n; i++ {
		inSKey[i] = lt.Ctkey{Dest: lt.Key(ephs[i].SKey), Mask: sources[i].Mask}
		indexs[i] = uint32(sources[i].RingIndex)
		rings[i] = make(lt.CtkeyV, len(sources[i].Ring))
		for j := range sources[i].Ring {
			rings[i][j] = lt.Ctkey{Dest: sources[i].Ring[j].OTAddr, Mask: sources[i].Ring[j].Commit}
		}
		amt := sources[i].Amount
		if i < len(o.inAmounts) && o.inAmounts[i] != nil {
			amt = o.inAmounts[i]
		}
		if inAmounts[i], err = unitsKey(amt); err != nil {
			return err
		}
	}
	tx.RCTSig.Type = uint8(lt.RCTTypeBulletproof)
	tx.RCTSig.Message = tx.PrefixHash()
	tx.RCTSig.MixRing = rings
	tx.RCTSig.P.PseudoOuts = make(lt.KeyV, n)
	tx.RCTSig.P.MGs = make([]lt.MgSig, n)
	tx.RCTSig.P.Ss = make([]lt.Signature, n)
	ra := make(lt.KeyV, n)
	sumInCF := ringct.Z
	k := 0
	for k = 0; k < n-1; k++ {
		ra[k] = ringct.SkGen()
		sumInCF = ringct.ScAdd(lt.EcScalar(ra[k]), lt.EcScalar(sumInCF))
		tx.RCTSig.P.PseudoOuts[k], _ = ringct.AddKeys2(ra[k], inAmounts[k], ringct.H)
	}
	ra[k] = ringct.ScSub(lt.EcScalar(sumOutCF), lt.EcScalar(sumInCF))
	tx.RCTSig.P.PseudoOuts[k], _ = ringct.AddKeys2(ra[k], inAmounts[k], ringct.H)
	for i, kk := range o.pseudoAddH {
		if i < n {
			tx.RCTSig.P.PseudoOuts[i] = addH(tx.RCTSig.P.PseudoOuts[i], kk)
		}
	}
	if o.extraPseud != nil {
		tx.RCTSig.P.PseudoOuts = append(tx.RCTSig.P.PseudoOuts, ringct.ScalarmultH(scalarOf(o.extraPseud)))
	}
	hash, err := ringct.GetPreMlsagHash(&tx.RCTSig)
	if err != nil {
		return err
	}
	short := n > 0 && len(sources[0].Ring) == types.SHORT_RING_MEMBER_NUM && !o.mlsagForShort
	for i := 0; i < n; i++ {
		if short {
			pubs := []lt.PublicKey{lt.PublicKey(ephs[i].OTAddr)}
			ssig, err := xcrypto.GenerateRingSignature(lt.Hash(hash), lt.KeyImage(ephs[i].KeyImage), pubs, ephs[i].SKey, 0)
			if err != nil {
				return err
			}
			tx.RCTSig.P.Ss[i] = *ssig
		} else {
			mg, err := ringct.ProveRctMGSimple(hash, rings[i], inSKey[i], ra[i], tx.RCTSig.P.PseudoOuts[i], nil, nil, indexs[i])
			if err != nil {
				return err
			}
			tx.RCTSig.P.MGs[i] = *mg
		}
	}
	return nil
}

// rctSignAin: copy of types.aInTransWithRctSig (the Remark masking, done once by the real
// constructor, is not repeated) with hooks.
func rctSignAin(tx *types.UTXOTransaction, dests []types.DestEntry, mkeys lt.KeyV, o *signOpts) error {
	tx.RCTSig = lt.RctSig{}
	amounts := utxoDestAmounts(dests)
	for i := range amounts {
		if i < len(o.outAmounts) && o.outAmounts[i] != nil {
			amounts[i] = o.outAmounts[i]
		}
	}
	sumOutCF, err := proveOutputs(tx, amounts, mkeys, o)
	if err != nil {
		return err
	}
	in, ok := tx.Inputs[0].(*types.AccountInput)
	if !ok || len(tx.Inputs) != 1 {
		return types.ErrInputTypeNotExpect
	}
	amountKey, err := unitsKey(in.Amount)
	if err != nil {
		return err
	}
	in.CF = sumOutCF
	in.Commit, _ = ringct.AddKeys2(sumOutCF, amountKey, ringct.H)
	return nil
}
