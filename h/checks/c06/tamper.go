package c06

import (
	"fmt"
	"math/big"
	"sort"
	"strings"

	"github.com/lianxiangcloud/linkchain/libs/common"
	"github.com/lianxiangcloud/linkchain/libs/cryptonote/ringct"
	lt "github.com/lianxiangcloud/linkchain/libs/cryptonote/types"
	"github.com/lianxiangcloud/linkchain/types"

	"verif/h/internal/chainkit"
	"verif/h/internal/core"
)

// ---------------------------------------------------------------- specs: what an honest spender wants to do

type uSpec struct {
	name    string // uu | ua | ua+change
	wl      *chainkit.UWallet
	ins     []*chainkit.OwnedOut
	ring    int
	sources []*types.UTXOSourceEntry
	dests   []types.DestEntry
	fee     *big.Int
}

func (s *uSpec) ringClass() string {
	if s.ring == 1 {
		return "ring1"
	}
	return "ringN"
}

func copySources(in []*types.UTXOSourceEntry) []*types.UTXOSourceEntry {
	out := make([]*types.UTXOSourceEntry, len(in))
	for i, s := range in {
		c := *s
		c.Ring = append([]types.UTXORingEntry{}, s.Ring...)
		c.Amount = new(big.Int).Set(s.Amount)
		out[i] = &c
	}
	return out
}

func copyDests(in []types.DestEntry) []types.DestEntry {
	out := make([]types.DestEntry, len(in))
	for i, d := range in {
		switch v := d.(type) {
		case *types.UTXODestEntry:
			c := *v
			c.Amount = new(big.Int).Set(v.Amount)
			out[i] = &c
		case *types.AccountDestEntry:
			c := *v
			c.Amount = new(big.Int).Set(v.Amount)
			out[i] = &c
		}
	}
	return out
}

// firstU / firstA: index of the first confidential / account destination, -1 if none.
func firstU(d []types.DestEntry) int {
	for i, e := range d {
		if e.Type() == types.TypeUTXODest {
			return i
		}
	}
	return -1
}
func firstA(d []types.DestEntry) int {
	for i, e := range d {
		if e.Type() != types.TypeUTXODest {
			return i
		}
	}
	return -1
}

func bumpDest(d []types.DestEntry, i int, delta *big.Int) []types.DestEntry {
	out := copyDests(d)
	switch v := out[i].(type) {
	case *types.UTXODestEntry:
		v.Amount.Add(v.Amount, delta)
	case *types.AccountDestEntry:
		v.Amount.Add(v.Amount, delta)
	}
	return out
}

// buildUin: real constructor (key images, one-time addresses, account commitments, fee) + signer.
func (w *world) buildUin(s *uSpec, dests []types.DestEntry, o *signOpts) (*types.UTXOTransaction, error) {
	if dests == nil {
		dests = s.dests
	}
	dests = copyDests(dests)
	srcs := copySources(s.sources)
	for i := range srcs {
		if i < len(o.inAmounts) && o.inAmounts[i] != nil {
			srcs[i].Amount = new(big.Int).Set(o.inAmounts[i]) // the constructor derives Fee = sum(in) - sum(out) from it
		}
	}
	tx, ephs, mkeys, _, err := types.NewUinTokenTransaction(s.wl.Keys, s.wl.KeyIndex, srcs, dests, lkc, lkc, big.NewInt(0), nil)
	if err != nil {
		return nil, fmt.Errorf("construct: %v", err)
	}
	if o.pre != nil {
		o.pre(tx)
	}
	if o.real {
		err = types.UInTransWithRctSig(tx, srcs, ephs, dests, mkeys)
	} else {
		if s.ring == 1 && w.mlsag1 == nil {
			// what does the repository's signer emit for ring size 1?
			flag := false
			if probe, perr := w.buildUin(s, nil, &signOpts{real: true}); perr == nil {
				flag = len(probe.RCTSig.P.MGs) > 0 && len(probe.RCTSig.P.MGs[0].Ss) > 0
			}
			w.mlsag1 = &flag
		}
		oo := *o
		oo.mlsagForShort = s.ring == 1 && w.mlsag1 != nil && *w.mlsag1
		err = rctSignUin(tx, srcs, ephs, dests, mkeys, &oo)
	}
	if err != nil {
		return nil, fmt.Errorf("sign: %v", err)
	}
	if o.post != nil {
		o.post(tx)
	}
	return tx, nil
}

type aSpec struct {
	acct  int
	nonce uint64
	dests []types.DestEntry
	fee   *big.Int
}

func (w *world) buildAin(s *aSpec, dests []types.DestEntry, fee *big.Int, o *signOpts) (*types.UTXOTransaction, error) {
	if dests == nil {
		dests = s.dests
	}
	if fee == nil {
		fee = s.fee
	}
	dests = copyDests(dests)
	total := new(big.Int).Set(fee)
	for _, d := range dests {
		total.Add(total, d.GetAmount())
	}
	from := w.acct(s.acct)
	src := &types.AccountSourceEntry{From: from.Addr, Nonce: s.nonce, Amount: total}
	tx, rsec, err := types.NewAinTokenTransaction(src, dests, lkc, big.NewInt(0), nil)
	if err != nil {
		return nil, fmt.Errorf("construct: %v", err)
	}
	if o.pre != nil {
		o.pre(tx)
	}
	if !o.real {
		var ud []*types.UTXODestEntry
		for _, d := range dests {
			if u, ok := d.(*types.UTXODestEntry); ok {
				ud = append(ud, u)
			}
		}
		_, mkeys, err := types.GenerateOneTimeAddress(*rsec, ud)
		if err != nil {
			return nil, err
		}
		if err := rctSignAin(tx, dests, mkeys, o); err != nil {
			return nil, fmt.Errorf("sign: %v", err)
		}
	}
	if o.mid != nil {
		o.mid(tx)
	}
	if err := tx.Sign(types.GlobalSTDSigner, from.Key); err != nil {
		return nil, err
	}
	if o.post != nil {
		o.post(tx)
	}
	return tx, nil
}

// ---------------------------------------------------------------- variants

type variant struct {
	class   string
	control bool
	// conserve: a shape the rules could legitimately admit; admission alone proves nothing, the variant is
	// judged by what the chain makes of it (runConserve)
	conserve bool
	s6      string // non-empty: the suspected short-ring class with this key suffix
	build   func() (*types.UTXOTransaction, error)
}

func accOut(tx *types.UTXOTransaction) *types.AccountOutput {
	for _, o := range tx.Outputs {
		if a, ok := o.(*types.AccountOutput); ok {
			return a
		}
	}
	return nil
}

func accIn(tx *types.UTXOTransaction) *types.AccountInput {
	for _, i := range tx.Inputs {
		if a, ok := i.(*types.AccountInput); ok {
			return a
		}
	}
	return nil
}

var two64 = new(big.Int).Lsh(big.NewInt(1), 64)

func (w *world) delta() *big.Int {
	switch w.r.Intn(4) {
	case 0:
		return new(big.Int).Set(unit) // one unit
	case 1:
		return lk(1)
	case 2:
		return lk(1000000)
	}
	return new(big.Int).Mul(unit, big.NewInt(int64(w.r.Range(1, 1000000000))))
}

func (w *world) subUnit() *big.Int { // 1 .. 10^10-1 wei
	switch w.r.Intn(3) {
	case 0:
		return big.NewInt(1)
	case 1:
		return new(big.Int).Sub(unit, big.NewInt(1))
	}
	return big.NewInt(int64(w.r.Range(2, 9999999998)))
}

func (w *world) feeStep() *big.Int {
	return new(big.Int).Mul(price, big.NewInt(int64(w.r.Range(1, 100000))))
}

// uinVariants: everything a dishonest spender of confidential outputs could try on spec s.
func (w *world) uinVariants(s *uSpec) []variant {
	rc := s.ringClass()
	iu, ia := firstU(s.dests), firstA(s.dests)
	mk := func(class string, dests []types.DestEntry, o *signOpts) variant {
		return variant{class: class + "/" + rc, build: func() (*types.UTXOTransaction, error) { return w.buildUin(s, dests, o) }}
	}
	vs := []variant{
		{class: "control-real/" + rc, control: true, build: func() (*types.UTXOTransaction, error) { return w.buildUin(s, nil, &signOpts{real: true}) }},
		{class: "control-copy/" + rc, control: true, build: func() (*types.UTXOTransaction, error) { return w.buildUin(s, nil, &signOpts{}) }},
	}
	d := w.delta()
	if iu >= 0 {
		// output inflated, commitment and range proof recomputed honestly for the inflated amount
		amts := utxoDestAmounts(s.dests)
		infl := make([]*big.Int, len(amts))
		infl[0] = new(big.Int).Add(amts[0], d)
		vs = append(vs, mk("uout-inflated-reproved", nil, &signOpts{outAmounts: infl}))
		// amount >= 2^64 units on an output, balanced by the same excess on a pseudo-out, range proof for the low 64 bits
		vs = append(vs, mk("uout-2^64-wrap-balanced", nil, &signOpts{outPkAddH: map[int]*big.Int{0: two64}, pseudoAddH: map[int]*big.Int{0: two64}}))
		// one output commitment shifted (signatures cover it / do not cover it)
		k := new(big.Int).Div(d, unit)
		vs = append(vs, mk("outpk-shifted-signed", nil, &signOpts{outPkAddH: map[int]*big.Int{0: k}}))
		vs = append(vs, mk("outpk-shifted-unsigned", nil, &signOpts{post: func(tx *types.UTXOTransaction) {
			tx.RCTSig.OutPk[0].Mask = addH(tx.RCTSig.OutPk[0].Mask, k)
		}}))
		// range proof of another valid transaction of the same shape, signatures made over it
		vs = append(vs, variant{class: "bulletproof-swapped-signed/" + rc, build: func() (*types.UTXOTransaction, error) {
			y, err := w.buildUin(s, nil, &signOpts{})
			if err != nil {
				return nil, err
			}
			return w.buildUin(s, nil, &signOpts{foreignBP: &y.RCTSig.P.Bulletproofs[0]})
		}})
		vs = append(vs, variant{class: "bulletproof-swapped-unsigned/" + rc, build: func() (*types.UTXOTransaction, error) {
			y, err := w.buildUin(s, nil, &signOpts{})
			if err != nil {
				return nil, err
			}
			return w.buildUin(s, nil, &signOpts{post: func(tx *types.UTXOTransaction) {
				bp := y.RCTSig.P.Bulletproofs[0]
				bp.V = nil
				tx.RCTSig.P.Bulletproofs[0] = bp
			}})
		}})
	}
	// ring signatures / MLSAGs of another valid transaction spending the same outputs
	vs = append(vs, variant{class: "mlsag-swapped/" + rc, build: func() (*types.UTXOTransaction, error) {
		y, err := w.buildUin(s, nil, &signOpts{})
		if err != nil {
			return nil, err
		}
		return w.buildUin(s, nil, &signOpts{post: func(tx *types.UTXOTransaction) {
			tx.RCTSig.P.MGs = y.RCTSig.P.MGs
			tx.RCTSig.P.Ss = y.RCTSig.P.Ss
		}})
	}})
	// pseudo-out shifted towards a larger amount without touching the outputs
	vs = append(vs, mk("pseudo-out-shifted", nil, &signOpts{pseudoAddH: map[int]*big.Int{0: new(big.Int).Div(d, unit)}}))
	// fee field altered, signatures made over the altered fee / not
	step := w.feeStep()
	vs = append(vs, mk("fee-raised-signed", nil, &signOpts{pre: func(tx *types.UTXOTransaction) { tx.Fee = new(big.Int).Add(tx.Fee, step) }}))
	if s.fee.Cmp(step) > 0 {
		vs = append(vs, mk("fee-lowered-signed", nil, &signOpts{pre: func(tx *types.UTXOTransaction) { tx.Fee = new(big.Int).Sub(tx.Fee, step) }}))
	}
	vs = append(vs, mk("fee-raised-unsigned", nil, &signOpts{post: func(tx *types.UTXOTransaction) { tx.Fee = new(big.Int).Add(tx.Fee, step) }}))
	vs = append(vs, mk("fee-nonmultiple-unbalanced", nil, &signOpts{pre: func(tx *types.UTXOTransaction) { tx.Fee = new(big.Int).Add(tx.Fee, unit) }}))
	vs = append(vs, mk("fee-zero-unbalanced", nil, &signOpts{pre: func(tx *types.UTXOTransaction) { tx.Fee = big.NewInt(0) }}))
	// balanced, but the fee is not a multiple of the gas price (the remainder would vanish) / is zero
	pay := iu
	if pay < 0 {
		pay = ia
	}
	vs = append(vs, mk("fee-nonmultiple-balanced", bumpDest(s.dests, pay, new(big.Int).Neg(unit)), &signOpts{}))
	vs = append(vs, mk("fee-zero-balanced", bumpDest(s.dests, pay, s.fee), &signOpts{}))
	// outputs take everything the inputs hold, the fee field still promises the fee (nothing backs it)
	vs = append(vs, mk("fee-not-backed", bumpDest(s.dests, pay, s.fee), &signOpts{pre: func(tx *types.UTXOTransaction) { tx.Fee = new(big.Int).Set(s.fee) }}))
	if ia >= 0 {
		su := w.subUnit()
		// account output credited with more than its commitment says
		vs = append(vs, mk("aout-nonunit-surplus", nil, &signOpts{pre: func(tx *types.UTXOTransaction) {
			a := accOut(tx)
			a.Amount = new(big.Int).Add(a.Amount, su)
		}}))
		vs = append(vs, mk("aout-inflated-commit-kept", nil, &signOpts{pre: func(tx *types.UTXOTransaction) {
			a := accOut(tx)
			a.Amount = new(big.Int).Add(a.Amount, d)
		}}))
		vs = append(vs, mk("aout-inflated-recommitted", nil, &signOpts{pre: func(tx *types.UTXOTransaction) {
			a := accOut(tx)
			a.Amount = new(big.Int).Add(a.Amount, d)
			k, _ := unitsKey(a.Amount)
			a.Commit = ringct.ScalarmultH(k)
		}}))
		vs = append(vs, mk("aout-commit-shifted", nil, &signOpts{pre: func(tx *types.UTXOTransaction) {
			a := accOut(tx)
			a.Commit = addH(a.Commit, big.NewInt(1))
		}}))
		// the public amount grows by 2^64 units while its commitment stays that of the low 64 bits (the honest
		// one): only a verifier that refuses amounts of 2^64 units and more, instead of truncating them when it
		// recomputes the commitment, sees the difference
		vs = append(vs, mk("aout-2^64-units-commit-of-low-64-bits", nil, &signOpts{pre: func(tx *types.UTXOTransaction) {
			a := accOut(tx)
			a.Amount = new(big.Int).Add(a.Amount, new(big.Int).Mul(two64, unit))
		}}))
		// the same with the fee at its cap (fee = inputs - outputs: the whole spend goes to the account minus
		// the maximal fee), so that no fee rule hides the verdict of the commitment check; with its control
		tot := new(big.Int)
		for _, src := range s.sources {
			tot.Add(tot, src.Amount)
		}
		capFee := new(big.Int).Mul(big.NewInt(types.MaxGasLimit), price)
		if amt := new(big.Int).Sub(tot, capFee); amt.Cmp(unit) > 0 {
			amt.Sub(amt, new(big.Int).Mod(amt, unit))
			one := copyDests(s.dests[ia : ia+1])
			one[0].(*types.AccountDestEntry).Amount = amt
			vs = append(vs, variant{class: "control-whole-spend-to-account-at-capped-fee/" + rc, control: true, build: func() (*types.UTXOTransaction, error) { return w.buildUin(s, one, &signOpts{}) }})
			vs = append(vs, mk("aout-2^64-units-commit-of-low-64-bits-at-capped-fee", one, &signOpts{pre: func(tx *types.UTXOTransaction) {
				a := accOut(tx)
				a.Amount = new(big.Int).Add(a.Amount, new(big.Int).Mul(two64, unit))
			}}))
		}
		vs = append(vs, mk("aout-2^64-units", nil, &signOpts{pre: func(tx *types.UTXOTransaction) {
			a := accOut(tx)
			a.Amount = new(big.Int).Add(a.Amount, new(big.Int).Mul(two64, unit))
			a.Commit = ringct.ScalarmultH(scalarOf(new(big.Int).Div(a.Amount, unit)))
		}}))
	}
	if s.ring > 1 {
		// claimed input amount larger than what the spent output holds, outputs inflated to match:
		// for rings > 1 the MLSAG ties the pseudo-out to the spent commitment
		vs = append(vs, w.inflatedInput(s, "pseudo-out-inflated-balanced/"+rc, ""))
	}
	return vs
}

// inflatedInput: the spender claims `true + d` for input 0 and sends the surplus to itself; every
// proof and signature is made honestly for the inflated numbers (DESIGN.md §6-S6).
func (w *world) inflatedInput(s *uSpec, class, s6 string) variant {
	d := lk(int64(w.r.Range(1, 2000000)))
	return variant{class: class, s6: s6, build: func() (*types.UTXOTransaction, error) {
		in := make([]*big.Int, len(s.sources))
		in[0] = new(big.Int).Add(s.sources[0].Amount, d)
		pay := firstU(s.dests)
		if pay < 0 {
			// straight into a plain account; the (larger) transfer fee is paid out of the surplus
			claimed := new(big.Int).Set(d)
			for _, src := range s.sources {
				claimed.Add(claimed, src.Amount)
			}
			fee := chainkit.UtxoFeeUinToA(claimed)
			dests := copyDests(s.dests)
			dests[0].(*types.AccountDestEntry).Amount = new(big.Int).Sub(claimed, fee)
			return w.buildUin(s, dests, &signOpts{real: true, inAmounts: in})
		}
		// made with the repository's own constructor and signer: the only lie is UTXOSourceEntry.Amount
		return w.buildUin(s, bumpDest(s.dests, pay, d), &signOpts{real: true, inAmounts: in})
	}}
}

// extraPseudo: one more pseudo-out than inputs, committing to d with a zero mask.
func (w *world) extraPseudo(s *uSpec, class, s6 string) variant {
	d := lk(int64(w.r.Range(1, 2000000)))
	return variant{class: class, s6: s6, build: func() (*types.UTXOTransaction, error) {
		amts := utxoDestAmounts(s.dests)
		infl := make([]*big.Int, len(amts))
		infl[0] = new(big.Int).Add(amts[0], d)
		return w.buildUin(s, nil, &signOpts{outAmounts: infl, extraPseud: new(big.Int).Div(d, unit)})
	}}
}

func (w *world) ainVariants(s *aSpec) []variant {
	mk := func(class string, dests []types.DestEntry, fee *big.Int, o *signOpts) variant {
		return variant{class: class, build: func() (*types.UTXOTransaction, error) { return w.buildAin(s, dests, fee, o) }}
	}
	d := w.delta()
	su := w.subUnit()
	step := w.feeStep()
	amts := utxoDestAmounts(s.dests)
	infl := make([]*big.Int, len(amts))
	infl[0] = new(big.Int).Add(amts[0], d)
	vs := []variant{
		{class: "control-real/ain", control: true, build: func() (*types.UTXOTransaction, error) { return w.buildAin(s, nil, nil, &signOpts{real: true}) }},
		{class: "control-copy/ain", control: true, build: func() (*types.UTXOTransaction, error) { return w.buildAin(s, nil, nil, &signOpts{}) }},
		mk("ain/uout-inflated-reproved", nil, nil, &signOpts{outAmounts: infl}),
		mk("ain/outpk-shifted", nil, nil, &signOpts{real: true, mid: func(tx *types.UTXOTransaction) {
			tx.RCTSig.OutPk[0].Mask = addH(tx.RCTSig.OutPk[0].Mask, new(big.Int).Div(d, unit))
		}}),
		mk("ain/commit-shifted", nil, nil, &signOpts{real: true, mid: func(tx *types.UTXOTransaction) {
			a := accIn(tx)
			a.Commit = addH(a.Commit, big.NewInt(1))
		}}),
		mk("ain/cf-shifted", nil, nil, &signOpts{real: true, mid: func(tx *types.UTXOTransaction) {
			a := accIn(tx)
			a.CF = ringct.ScAdd(lt.EcScalar(a.CF), lt.EcScalar(scalarOf(big.NewInt(1))))
		}}),
		// the account is debited more / less than the commitment says
		mk("ain/amount-nonunit-surplus", nil, nil, &signOpts{real: true, mid: func(tx *types.UTXOTransaction) {
			a := accIn(tx)
			a.Amount = new(big.Int).Add(a.Amount, su)
		}}),
		mk("ain/amount-lowered-commit-kept", nil, nil, &signOpts{real: true, mid: func(tx *types.UTXOTransaction) {
			a := accIn(tx)
			a.Amount = new(big.Int).Sub(a.Amount, unit)
		}}),
		mk("ain/amount-lowered-recommitted", nil, nil, &signOpts{real: true, mid: func(tx *types.UTXOTransaction) {
			a := accIn(tx)
			a.Amount = new(big.Int).Sub(a.Amount, unit)
			k, _ := unitsKey(a.Amount)
			a.Commit, _ = ringct.AddKeys2(a.CF, k, ringct.H)
		}}),
		mk("ain/amount-2^64-units", nil, nil, &signOpts{real: true, mid: func(tx *types.UTXOTransaction) {
			a := accIn(tx)
			a.Amount = new(big.Int).Add(a.Amount, new(big.Int).Mul(two64, unit))
		}}),
		mk("ain/fee-raised", nil, nil, &signOpts{real: true, mid: func(tx *types.UTXOTransaction) { tx.Fee = new(big.Int).Add(tx.Fee, step) }}),
		mk("ain/fee-lowered", nil, nil, &signOpts{real: true, mid: func(tx *types.UTXOTransaction) {
			if tx.Fee.Cmp(step) > 0 {
				tx.Fee = new(big.Int).Sub(tx.Fee, step)
			} else {
				tx.Fee = big.NewInt(0)
			}
		}}),
		mk("ain/fee-zero-unbalanced", nil, nil, &signOpts{real: true, mid: func(tx *types.UTXOTransaction) { tx.Fee = big.NewInt(0) }}),
		// the account pays for the outputs only, the fee field still promises the fee (nothing backs it)
		mk("ain/fee-not-backed", nil, big.NewInt(0), &signOpts{real: true, mid: func(tx *types.UTXOTransaction) { tx.Fee = new(big.Int).Set(s.fee) }}),
		mk("ain/fee-nonmultiple-balanced", nil, new(big.Int).Add(s.fee, unit), &signOpts{real: true}),
		// (rejected only by the state check, AFTER checkState has already bumped the nonce in the mempool's
		// speculative state; it is therefore made for another account so that the control stays admissible)
		{class: "ain/fee-zero-balanced", build: func() (*types.UTXOTransaction, error) {
			s2 := *s
			s2.acct = (s.acct + 1) % numAccounts
			s2.nonce = w.nonce[s2.acct]
			return w.buildAin(&s2, nil, big.NewInt(0), &signOpts{real: true})
		}},
		{class: "ain/bulletproof-swapped", build: func() (*types.UTXOTransaction, error) {
			y, err := w.buildAin(s, nil, nil, &signOpts{real: true})
			if err != nil {
				return nil, err
			}
			return w.buildAin(s, nil, nil, &signOpts{real: true, mid: func(tx *types.UTXOTransaction) {
				bp := y.RCTSig.P.Bulletproofs[0]
				bp.V = nil
				tx.RCTSig.P.Bulletproofs[0] = bp
			}})
		}},
		mk("ain/uout-2^64-wrap", nil, nil, &signOpts{real: true, mid: func(tx *types.UTXOTransaction) {
			tx.RCTSig.OutPk[0].Mask = addH(tx.RCTSig.OutPk[0].Mask, two64)
		}}),
	}
	// the account side split over two account inputs whose commitments add up to the original one (amounts
	// a1 + a2, blinding factors cf1 + cf2 = cf): the commitment equation still balances; whether the account
	// is debited a1 + a2 is decided by the ledger after the block (wallets only ever build one account input)
	split := mk("ain/two-account-inputs-split", nil, nil, &signOpts{real: true, mid: func(tx *types.UTXOTransaction) {
		a := accIn(tx)
		units := new(big.Int).Div(a.Amount, unit)
		if units.Cmp(big.NewInt(2)) < 0 {
			return
		}
		u2 := new(big.Int).Add(big.NewInt(1), new(big.Int).Mod(new(big.Int).SetUint64(w.r.Uint64()), new(big.Int).Sub(units, big.NewInt(1))))
		a2 := new(big.Int).Mul(u2, unit)
		a1 := new(big.Int).Sub(a.Amount, a2)
		cf2 := scalarOf(new(big.Int).SetUint64(w.r.Uint64() | 1))
		cf1 := ringct.ScSub(lt.EcScalar(a.CF), lt.EcScalar(cf2))
		in1 := &types.AccountInput{Nonce: a.Nonce, Amount: a1, CF: cf1, Commit: types.AmountCommit(new(big.Int).Div(a1, unit), cf1)}
		in2 := &types.AccountInput{Nonce: a.Nonce, Amount: a2, CF: cf2, Commit: types.AmountCommit(u2, cf2)}
		if w.r.Bool() {
			in1, in2 = in2, in1
		}
		var ins []types.Input
		for _, i := range tx.Inputs {
			if i == types.Input(a) {
				ins = append(ins, in1, in2)
			} else {
				ins = append(ins, i)
			}
		}
		tx.Inputs = ins
	}})
	split.conserve = true
	vs = append(vs, split)
	return vs
}

// runConserve: the variant goes to the real mempool; if it is admitted the chain runs one block and the supply
// (all accounts + hidden pool, LKC) must be what it was (the harness knows every hidden output it built).
func (w *world) runConserve(z *byz, v variant) {
	c := w.c
	tx, err := v.build()
	if err != nil {
		c.Count("variant_not_buildable", 1)
		c.Logf("%s: %v", v.class, err)
		return
	}
	c.Count("conserve_variants", 1)
	c.Count("class:"+v.class, 1)
	_, blockOK, err := z.check(tx)
	if err != nil {
		c.Inconclusive("byzantine block: " + err.Error())
		return
	}
	merr := w.p.Mempool.AddTx("", mustClone(tx))
	if merr != nil {
		c.Count("conserve_rejected_mempool", 1)
		c.Count("mempool_reason:"+reason(merr), 1)
		if blockOK {
			c.Count("conserve_accepted_in_block_only_not_judged", 1)
		}
		return
	}
	c.Count("conserve_admitted", 1)
	before := w.cur.totals()[lkc]
	hb := w.hidden
	res, err := w.step()
	if err == nil {
		err = w.observe()
	}
	if err != nil {
		c.Inconclusive("commit of the admitted transaction: " + err.Error())
		return
	}
	if z2, err := w.newByz(); err == nil {
		*z = *z2
	}
	supplyBefore := new(big.Int).Add(before, hb)
	supplyAfter := new(big.Int).Add(w.cur.totals()[lkc], w.hidden)
	created := new(big.Int).Sub(supplyAfter, supplyBefore)
	if created.Sign() != 0 || w.led.Unknown != 0 {
		wit := witnessTx(v.class, tx)
		wit["committed_at_height"] = res.Block.Height
		wit["supply_before"], wit["supply_after"], wit["created"] = supplyBefore.String(), supplyAfter.String(), created.String()
		wit["unknown_outputs"] = w.led.Unknown
		wit["accepted_in_block_by_validator"] = blockOK
		c.Violation("tamper-executed-supply-changed/"+v.class, fmt.Sprintf("a %s transaction was admitted and committed at height %d; LKC supply (all accounts + hidden pool) %v -> %v: %v created", v.class, res.Block.Height, supplyBefore, supplyAfter, created), wit)
	}
}

// ---------------------------------------------------------------- the two entry points

type byz struct {
	w     *world
	parts *types.PartSet
	total uint64
}

// newByz prepares the template of the Byzantine proposer: a correctly formed block for the next
// height (made by the proposer path on an empty mempool) whose transaction list is then swapped.
func (w *world) newByz() (*byz, error) {
	height := w.p.Status.LastBlockHeight + 1
	b, parts, err := w.p.Propose(w.commit, uint64(chainkit.FixedTime.Unix())+height, nil)
	if err != nil {
		return nil, err
	}
	if len(b.Data.Txs) != 0 {
		return nil, fmt.Errorf("template block is not empty")
	}
	return &byz{w: w, parts: parts, total: b.TotalTxs}, nil
}

func (z *byz) block(tx types.Tx, res *types.TxsResult) (*types.Block, error) {
	b, err := chainkit.DecodeBlock(z.parts, 0)
	if err != nil {
		return nil, err
	}
	b.Data = &types.Data{Txs: types.Txs{tx}}
	b.Header.NumTxs = 1
	b.Header.TotalTxs = z.total + 1
	b.Header.DataHash = b.Data.Hash()
	if res != nil {
		b.Header.StateHash, b.Header.ReceiptHash, b.Header.GasUsed = res.StateHash, res.ReceiptHash, res.GasUsed
	}
	return b, nil
}

// check: does a correct validator replica accept a block carrying tx? The Byzantine proposer first
// learns what the validator's execution yields (only if verification and execution let the
// transaction through at all) and then presents the block with matching result hashes.
func (z *byz) check(tx types.Tx) (executed, accepted bool, err error) {
	t1, err := cloneTx(tx)
	if err != nil {
		return false, false, err
	}
	b1, err := z.block(t1, nil)
	if err != nil {
		return false, false, err
	}
	app := z.w.v.App
	if app.CheckBlock(b1) {
		return true, true, nil
	}
	_, res, _, ok := app.VerifProcessResult(b1.Hash())
	if !ok {
		return false, false, nil
	}
	t2, err := cloneTx(tx)
	if err != nil {
		return true, false, err
	}
	b2, err := z.block(t2, &res)
	if err != nil {
		return true, false, err
	}
	return true, app.CheckBlock(b2), nil
}

func reason(err error) string {
	s := err.Error()
	if len(s) > 60 {
		s = s[:60]
	}
	return strings.Replace(s, " ", "_", -1)
}

// ---------------------------------------------------------------- the tamper case

func (w *world) mkUSpec(name string, ring int, nIn int) *uSpec {
	off := w.r.Intn(len(w.wallets))
	for k := 0; k < len(w.wallets); k++ {
		wl := w.wallets[(off+k)%len(w.wallets)]
		sp := w.led.Spendable(wl, lkc)
		if len(sp) < nIn {
			continue
		}
		s := &uSpec{name: name, wl: wl, ring: ring}
		sum := new(big.Int)
		for _, i := range w.r.Perm(len(sp))[:nIn] {
			sp[i].Pending = true
			s.ins = append(s.ins, sp[i])
			s.sources = append(s.sources, w.led.Source(w.r, sp[i], ring))
			sum.Add(sum, sp[i].Amount)
		}
		feeU := chainkit.UtxoFeeUinToU(w.p.App.GetUTXOGas())
		to := w.wallets[w.r.Intn(len(w.wallets))]
		switch name {
		case "uu":
			s.fee = new(big.Int).Add(feeU, w.extraFee())
			rest := new(big.Int).Sub(sum, s.fee)
			if rest.Cmp(lk(2)) < 0 {
				return nil
			}
			if w.r.Bool() {
				part := roundUnit(new(big.Int).Div(rest, big.NewInt(int64(w.r.Range(2, 4)))))
				s.dests = append(s.dests, chainkit.Dest(to, uint64(w.r.Intn(len(to.Subs))), part))
				rest.Sub(rest, part)
			}
			s.dests = append(s.dests, chainkit.Dest(wl, uint64(w.r.Intn(len(wl.Subs))), rest))
		case "ua":
			s.fee = new(big.Int).Add(chainkit.UtxoFeeUinToA(sum), w.extraFee())
			out := new(big.Int).Sub(sum, s.fee)
			if out.Cmp(lk(2)) < 0 {
				return nil
			}
			s.dests = append(s.dests, &types.AccountDestEntry{To: w.anyEOA(), Amount: out})
		case "ua+change":
			avail := new(big.Int).Sub(sum, feeU)
			if avail.Cmp(lk(4)) < 0 {
				return nil
			}
			aout := roundUnit(new(big.Int).Div(avail, big.NewInt(int64(w.r.Range(2, 5)))))
			s.fee = new(big.Int).Add(feeU, chainkit.UtxoFeeUinToA(aout))
			s.fee.Add(s.fee, w.extraFee())
			change := new(big.Int).Sub(sum, new(big.Int).Add(aout, s.fee))
			if change.Cmp(lk(1)) < 0 {
				return nil
			}
			s.dests = append(s.dests, &types.AccountDestEntry{To: w.anyEOA(), Amount: aout}, chainkit.Dest(wl, 0, change))
			if w.r.Bool() {
				s.dests[0], s.dests[1] = s.dests[1], s.dests[0]
			}
		}
		return s
	}
	return nil
}

func runTamper(c *core.Ctx) {
	w, err := newWorld(c, true)
	if err != nil {
		c.Inconclusive("setup: " + err.Error())
		return
	}
	defer w.close()
	// heights 1..2: fill the hidden pool through the real mempool
	for h := 1; h <= 2; h++ {
		pending := map[common.Hash]*intent{}
		for i := 0; i < 7; i++ {
			w.genAin(pending)
		}
		if _, err := w.step(); err != nil {
			c.Inconclusive(fmt.Sprintf("height %d: %v", h, err))
			return
		}
		for i := range w.nonce {
			w.nonce[i] = w.p.App.GetNonce(w.acct(i).Addr)
		}
	}
	if err := w.observe(); err != nil || w.led.Unknown != 0 {
		c.Inconclusive(fmt.Sprintf("setup: observe %v, unknown outputs %d", err, w.led.Unknown))
		return
	}
	z, err := w.newByz()
	if err != nil {
		c.Inconclusive("template block: " + err.Error())
		return
	}
	pool := len(w.led.Outs[lkc])
	bigRing := func() int {
		max := 11
		if pool < max {
			max = pool
		}
		return w.r.Range(2, max)
	}
	var variants []variant
	var s6 []struct {
		v variant
		s *uSpec
	}
	names := []string{"uu", "ua", "ua+change"}
	for _, ring := range []int{1, bigRing()} {
		for _, nm := range []string{"uu", names[1+w.r.Intn(2)]} {
			if s := w.mkUSpec(nm, ring, w.r.Range(1, 2)); s != nil {
				variants = append(variants, w.uinVariants(s)...)
			}
		}
	}
	a := &aSpec{acct: w.r.Intn(numAccounts)}
	a.nonce = w.nonce[a.acct]
	sum := new(big.Int)
	for i, n := 0, w.r.Range(1, 3); i < n; i++ {
		amt := w.uAmount()
		wl := w.wallets[w.r.Intn(len(w.wallets))]
		a.dests = append(a.dests, chainkit.Dest(wl, uint64(w.r.Intn(len(wl.Subs))), amt))
		sum.Add(sum, amt)
	}
	a.fee = new(big.Int).Add(chainkit.UtxoFeeAinToU(sum), w.extraFee())
	variants = append(variants, w.ainVariants(a)...)
	// the suspected short-ring classes get inputs of their own (an accepted one reserves its key images)
	if s := w.mkUSpec("uu", 1, w.r.Range(1, 2)); s != nil {
		s6 = append(s6, struct {
			v variant
			s *uSpec
		}{w.inflatedInput(s, "pseudo-out-inflated-balanced/ring1", keyS6), s})
	}
	if s := w.mkUSpec("ua", 1, 1); s != nil {
		s6 = append(s6, struct {
			v variant
			s *uSpec
		}{w.inflatedInput(s, "pseudo-out-inflated-balanced-to-account/ring1", keyS6), s})
	}
	if s := w.mkUSpec("uu", 1, 1); s != nil {
		s6 = append(s6, struct {
			v variant
			s *uSpec
		}{w.extraPseudo(s, "extra-pseudo-out/ring1", keyS6X), s})
	}

	var classes []string
	var controls []*types.UTXOTransaction
	tampered, ctlOK := 0, 0
	realOK := false
	for _, v := range variants {
		if v.conserve {
			w.runConserve(z, v)
			if c.Violated() {
				return
			}
			continue
		}
		tx, err := v.build()
		if err != nil {
			c.Count("variant_not_buildable", 1)
			c.Logf("%s: %v", v.class, err)
			continue
		}
		executed, accepted, err := z.check(tx)
		if err != nil {
			c.Inconclusive("byzantine block: " + err.Error())
			return
		}
		classes = append(classes, v.class)
		if v.control {
			if strings.HasPrefix(v.class, "control-real") {
				realOK = accepted
			} else if realOK && !accepted {
				// every tampered variant is made with the check's copy of the signer: if the tree no longer
				// accepts what the copy produces, their rejection would mean nothing
				c.Inconclusive("the check's copy of the RingCT signer (" + v.class + ") is rejected while the repository's signer is accepted: the signing format of the tree changed")
				return
			}
			c.Count("controls", 1)
			if !accepted {
				c.Count("controls_rejected_block", 1)
				berr := w.v.App.CheckTx(mustClone(tx), true)
				c.Logf("control %s rejected inside a block (executed=%v, CheckTx: %v)", v.class, executed, berr)
			} else {
				c.Count("controls_accepted_block", 1)
				ctlOK++
			}
			if strings.HasPrefix(v.class, "control-copy") {
				controls = append(controls, tx)
			}
			continue
		}
		tampered++
		c.Count("tampered", 1)
		c.Count("class:"+v.class, 1)
		switch {
		case strings.HasSuffix(v.class, "/ring1"):
			c.Count("tampered_ring1", 1)
		case strings.HasSuffix(v.class, "/ringN"):
			c.Count("tampered_ringN", 1)
		default:
			c.Count("tampered_account_to_confidential", 1)
		}
		if accepted {
			c.Violation("tamper-accepted/block/"+v.class, fmt.Sprintf("a validator replica's CheckBlock accepted a block carrying a %s transaction", v.class), witnessTx(v.class, tx))
		} else {
			c.Count("tampered_rejected_block", 1)
			if executed {
				c.Count("tampered_rejected_block_only_by_result_hashes", 1)
			}
		}
		if berr := w.v.App.CheckTx(mustClone(tx), true); berr != nil {
			c.Count("block_reason:"+reason(berr), 1)
		} else {
			c.Count("block_reason:state-check", 1)
		}
		merr := w.p.Mempool.AddTx("", mustClone(tx))
		if merr == nil {
			c.Violation("tamper-accepted/mempool/"+v.class, fmt.Sprintf("mempool admission accepted a %s transaction", v.class), witnessTx(v.class, tx))
		} else {
			c.Count("tampered_rejected_mempool", 1)
			c.Count("mempool_reason:"+reason(merr), 1)
		}
		if c.Violated() {
			return
		}
	}
	// the untampered twins go in last: they must be admitted
	for _, tx := range controls {
		if err := w.p.Mempool.AddTx("", mustClone(tx)); err != nil {
			c.Count("controls_rejected_mempool", 1)
			c.Logf("control rejected by the mempool: %v", err)
		} else {
			c.Count("controls_accepted_mempool", 1)
			ctlOK++
		}
	}
	// suspected classes: entry points first, then what the chain makes of it
	for _, e := range s6 {
		w.runS6(z, e.v, e.s)
		classes = append(classes, e.v.class)
	}
	if ctlOK > 0 && tampered >= 10 {
		sort.Strings(classes)
		c.Nontrivial(fmt.Sprintf("tamper-%d-%x", c.Index, hashString(strings.Join(classes, ","))))
	}
	c.Count("tamper_cases", 1)
	if c.Index%16 == 1 {
		c.Sample(map[string]interface{}{"case": "tamper", "variants": classes, "hidden_pool_outputs": pool})
	}
}

func mustClone(tx types.Tx) types.Tx {
	t, err := cloneTx(tx)
	if err != nil {
		panic(err)
	}
	return t
}

func witnessTx(class string, tx *types.UTXOTransaction) map[string]interface{} {
	m := map[string]interface{}{"class": class, "fee": tx.Fee.String(), "inputs": len(tx.Inputs), "outputs": len(tx.Outputs),
		"pseudo_outs": len(tx.RCTSig.P.PseudoOuts), "out_pk": len(tx.RCTSig.OutPk)}
	if a := accIn(tx); a != nil {
		m["account_input_amount"] = a.Amount.String()
	}
	if a := accOut(tx); a != nil {
		m["account_output_amount"] = a.Amount.String()
	}
	for _, in := range tx.Inputs {
		if u, ok := in.(*types.UTXOInput); ok {
			m["ring_size"] = len(u.KeyOffset)
			break
		}
	}
	return m
}

const (
	keyS6  = "ringct/short-ring/pseudo-out-not-bound-to-spent-commitment"
	keyS6X = "ringct/short-ring/pseudo-out-count-not-checked"
)

// runS6: ring size 1, the spender claims more than the spent output holds. If both entry points
// let it through, the transaction is committed through the normal pipeline and the ledger shows
// what happened to the supply; the surplus is then cashed out into a plain account.
func (w *world) runS6(z *byz, v variant, s *uSpec) {
	c := w.c
	tx, err := v.build()
	if err != nil {
		c.Count("variant_not_buildable", 1)
		c.Logf("%s: %v", v.class, err)
		return
	}
	c.Count("tampered", 1)
	c.Count("class:"+v.class, 1)
	_, blockOK, err := z.check(tx)
	if err != nil {
		c.Inconclusive("byzantine block: " + err.Error())
		return
	}
	merr := w.p.Mempool.AddTx("", mustClone(tx))
	if !blockOK {
		c.Count("tampered_rejected_block", 1)
	}
	if merr != nil {
		c.Count("tampered_rejected_mempool", 1)
		c.Count("mempool_reason:"+reason(merr), 1)
	}
	if !blockOK && merr != nil {
		return
	}
	trueIn := new(big.Int)
	for _, o := range s.ins {
		trueIn.Add(trueIn, o.Amount)
	}
	wit := witnessTx(v.class, tx)
	wit["spent_outputs_hold"] = trueIn.String()
	wit["accepted_by_mempool"] = merr == nil
	wit["accepted_in_block_by_validator"] = blockOK
	detail := fmt.Sprintf("%s transaction (inputs hold %v) accepted: mempool=%v validator-block=%v", v.class, trueIn, merr == nil, blockOK)
	if merr == nil {
		// let the chain run: the proposer reaps it, the validator replica checks and commits it
		before := w.cur.totals()[lkc]
		hb := w.hidden
		res, err := w.step()
		if err == nil {
			err = w.observe()
		}
		if err != nil {
			c.Inconclusive("commit of the accepted transaction: " + err.Error())
			return
		}
		z2, err := w.newByz()
		if err == nil {
			*z = *z2
		}
		after := w.cur.totals()[lkc]
		supplyBefore := new(big.Int).Add(before, hb)
		supplyAfter := new(big.Int).Add(after, w.hidden)
		created := new(big.Int).Sub(supplyAfter, supplyBefore)
		wit["committed_at_height"] = res.Block.Height
		wit["supply_before"] = supplyBefore.String()
		wit["supply_after"] = supplyAfter.String()
		wit["created"] = created.String()
		wit["unknown_outputs"] = w.led.Unknown
		detail += fmt.Sprintf("; committed at height %d, LKC supply (all accounts + hidden pool) %v -> %v: %v created", res.Block.Height, supplyBefore, supplyAfter, created)
		c.Count("s6_committed", 1)
	}
	c.Violation(v.s6, detail, wit)
}
