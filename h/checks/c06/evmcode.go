package c06

import (
	"math/big"

	"github.com/lianxiangcloud/linkchain/libs/common"
)

// Purpose-built EVM contracts. The generator knows exactly what each of them does with value, which is
// what lets the reference ledger predict every balance after a block (DESIGN.md §5 C06).
//
// kinds:
//   sink       accepts any value, does nothing                                   (STOP)
//   reverter   always REVERTs                                                    -> failed call, gas left refunded
//   looper     infinite loop                                                     -> out of gas
//   invalid    0xfe                                                              -> invalid opcode, all gas consumed
//   forwarder  forwards CALLVALUE to X with CALL, REVERTs if the inner call fails  (LKC only)
//   gate       empty calldata: accept value; any calldata: SELFDESTRUCT(beneficiary) (beneficiary may be the contract itself)
//   issuer     32-byte calldata n: ISSUE n of its own token and TRANSFERTOKEN them to the caller;
//              any other calldata (the chain's decimals() probe): return the constant decimals

type ckind int

const (
	kSink ckind = iota
	kReverter
	kLooper
	kInvalid
	kForwarder
	kGate
	kIssuer
	kNumKinds
)

var kindNames = []string{"sink", "reverter", "looper", "invalid", "forwarder", "gate", "issuer"}

func (k ckind) String() string { return kindNames[k] }

const issuerDecimals = 8 // => commitment unit (change rate) 1 for the token

func push20(a common.Address) []byte { return append([]byte{0x73}, a[:]...) }

func runtimeSink() []byte     { return []byte{0x00} }
func runtimeReverter() []byte { return []byte{0x60, 0x00, 0x60, 0x00, 0xfd} }
func runtimeLooper() []byte   { return []byte{0x5b, 0x60, 0x00, 0x56} }
func runtimeInvalid() []byte  { return []byte{0xfe} }

func runtimeForwarder(x common.Address) []byte {
	c := []byte{0x60, 0x00, 0x60, 0x00, 0x60, 0x00, 0x60, 0x00, 0x34} // retSize retOff inSize inOff CALLVALUE
	c = append(c, push20(x)...)                                       // offset 9..29
	c = append(c, 0x5a, 0xf1, 0x15, 0x60, 0x25, 0x57, 0x00)           // GAS CALL ISZERO PUSH1 0x25 JUMPI STOP
	c = append(c, 0x5b, 0x60, 0x00, 0x60, 0x00, 0xfd)                 // 0x25: JUMPDEST PUSH1 0 PUSH1 0 REVERT
	return c
}

// runtimeGate: self == true => SELFDESTRUCT(ADDRESS).
func runtimeGate(beneficiary common.Address, self bool) []byte {
	c := []byte{0x36, 0x60, 0x05, 0x57, 0x00, 0x5b} // CALLDATASIZE PUSH1 5 JUMPI STOP JUMPDEST
	if self {
		c = append(c, 0x30)
	} else {
		c = append(c, push20(beneficiary)...)
	}
	return append(c, 0xff)
}

func runtimeIssuer() []byte {
	return []byte{
		0x36, 0x60, 0x20, 0x14, 0x60, 0x11, 0x57, // CALLDATASIZE PUSH1 32 EQ PUSH1 0x11 JUMPI
		0x60, issuerDecimals, 0x60, 0x00, 0x52, 0x60, 0x20, 0x60, 0x00, 0xf3, // return decimals
		0x5b, 0x60, 0x00, 0x35, 0x80, 0xe0, // 0x11: JUMPDEST PUSH1 0 CALLDATALOAD DUP1 ISSUE
		0x33, 0x90, 0x30, 0x90, 0xe3, 0x00, // CALLER SWAP1 ADDRESS SWAP1 TRANSFERTOKEN STOP
	}
}

// initCode wraps runtime code in a constructor that returns it.
func initCode(runtime []byte) []byte {
	if len(runtime) > 255 {
		panic("runtime too long")
	}
	c := []byte{0x60, byte(len(runtime)), 0x80, 0x60, 0x0b, 0x60, 0x00, 0x39, 0x60, 0x00, 0xf3}
	return append(c, runtime...)
}

// constructors that do not deploy anything
func initRevert() []byte      { return []byte{0x60, 0x00, 0x60, 0x00, 0xfd} }
func initInvalid() []byte     { return []byte{0xfe} }
func initSelfSuicide() []byte { return []byte{0x30, 0xff} } // SELFDESTRUCT(ADDRESS) in the constructor: the endowment is destroyed

func word32(n *big.Int) []byte {
	b := make([]byte, 32)
	nb := n.Bytes()
	copy(b[32-len(nb):], nb)
	return b
}
