// Package c06: no transaction or block creates or destroys value (DESIGN.md §5 C06).
//
// Even case indices run the conservation side (a chain of real blocks with every transaction kind,
// checked against the conservation laws and a reference ledger after every block), odd indices the
// rejection side (tampered confidential transactions at mempool admission and inside a block built by
// a Byzantine proposer).
package c06

import (
	"encoding/binary"
	"strings"

	"verif/h/internal/core"
	"verif/shim/goshim"
)

func init() {
	core.Register(&core.Check{
		ID:        "C06",
		Level:     "exploration",
		Technique: "conservation laws and a reference ledger over generated chains of real blocks; adversarial (spender-level) tampering of valid confidential transactions at both entry points",
		Rule: "even cases: chain of 5-10 blocks on a real node (+ a validator replica checking every block) with plain/token transfers, EVM creations and calls (value-carrying, reverting, out-of-gas, invalid, SELFDESTRUCT to others and to itself, ISSUE), A->U, U->U, U->A with ring size 1 and >1 through the real mempool; " +
			"after every block: sum over ALL accounts of the state trie (+ hidden pool for LKC) per asset conserved except self-destruct-to-self and ISSUE, collector credit == gas charged, hidden pool == account side, every balance == reference ledger. " +
			"odd cases: valid confidential transactions tampered as the spender could (re-proved, re-signed) must be rejected by mempool admission AND by CheckBlock of a validator replica for a hand-built block; the untampered twin must be accepted at both. " +
			"non-trivial = chain with >=1 block carrying both a confidential and a contract transaction / tamper case with >=1 accepted control and >=10 tampered variants; distinct by hash of the block hashes / of the variant list",
		Assumptions: []string{
			"libxcrypto is replaced by the stand-in of DESIGN.md §2: real algebra (Pedersen commitments over ed25519, binding 2-row MLSAG, CryptoNote ring signature) and a sound 64-bit range check, but not bit-compatible with Monero's bulletproofs (the proof reveals amount and mask to the verifier)",
			"value flows of contract calls are predicted from purpose-built EVM contracts; gasUsed and status are taken from the receipts (not modelled)",
			"WASM contracts are only exercised through the fee collector (foundation contract) called by processBlock",
		},
		Cases: func(tier string) int {
			if tier == "thorough" {
				return 2400
			}
			return 96
		},
		Run:    run,
		Floors: floors,
		Extra:  extra,
		Init:   core.QuietLogs,
	})
}

// floors: about half of the minimum measured at seeds 1..5 of the quick tier (96 cases); the thorough
// tier runs 25 times as many cases (floors x22).
func floors(tier string) map[string]int64 {
	f := map[string]int64{
		"blocks": 170, "txs_committed": 1300, "txs_failed_status": 130, "conservation_checks": 550,
		"balance_comparisons": 6000, "account_leaves_read": 6000, "blocks_with_confidential_and_contract_txs": 140,
		"uin_ring1": 90, "uin_ring_gt1": 150, "uin_a": 120, "uin_u": 125,
		"contracts_selfdestructed": 39, "selfdestruct_to_self_destroyed_assets": 35, "issue_events": 7,
		"tampered": 1800, "tampered_ring1": 680, "tampered_ringN": 660, "tampered_account_to_confidential": 380,
		"tampered_rejected_block": 1750, "tampered_rejected_mempool": 1750,
		"controls_accepted_block": 200, "controls_accepted_mempool": 100,
	}
	f["failed_token_calls_with_value"] = 10
	f["offered:transfer-gas-price-above-network-price"] = 12
	f["conserve_variants"] = 24
	if tier == "thorough" {
		for k := range f {
			f[k] *= 22
		}
	}
	return f
}

func extra(tier string, counters map[string]int64) map[string]interface{} {
	classes := 0
	for k := range counters {
		if strings.HasPrefix(k, "class:") {
			classes++
		}
	}
	return map[string]interface{}{
		"tamper_classes_exercised": classes,
		"account_enumeration":      "every leaf of the committed account trie (state.Database().OpenTrie(root) + trie.NewIterator); addresses resolved by the trie's preimage store or, where the node kept no preimage, by the generator's set of known addresses (accounts_unknown_to_generator counts leaves nobody could name)",
	}
}

func run(c *core.Ctx) {
	var seed [16]byte
	binary.LittleEndian.PutUint64(seed[:8], c.Seed)
	binary.LittleEndian.PutUint64(seed[8:], uint64(c.Index))
	goshim.Seed(seed[:])
	if c.Index%2 == 0 {
		runChain(c)
	} else {
		runTamper(c)
	}
}
