// Package c06: no transaction or block creates or destroys value (DESIGN.md §5 C06).
//
// Even case indices run the conservation side (a chain of real blocks with every transaction kind,
// checked against the conservation laws and a reference ledger after every block), odd indices the
// rejection side (tampered confidential transactions at mempool admission and inside a block built by
// a Byzantine proposer).
package c06

import (
	"encoding/binary"

	"verif/h/internal/core"
	"verif/shim/goshim"
)

func init() {
	core.Register(&core.Check{
		ID:        "C06",
		Level:     "exploration",
		Technique: "conservation laws and a reference ledger over generated chains of real blocks; adversarial (spender-level) tampering of valid confidential transactions at both entry points",
		Rule: "even cases: chain of 5-10 blocks on a real node (+ a validator replica checking every block) with plain/token transfers, EVM creations and calls (value-carrying, reverting, out-of-gas, invalid, SELFDESTRUCT to others and to itself, ISSUE), A->U, U->U, U->A with ring size 1 and >1 through the real mempool; " +
			"after every block: sum over ALL accounts of the state trie (+ hidden pool for LKC) per asset conserved except self-destruct-to-self and ISSUE, collector credit == gas charged, hidden pool == account side, every balance == reference ledger. " +
			"odd cases: valid confidential transactions tampered as the spender could (re-proved, re-signed) must be rejected by mempool admission AND by CheckBlock of a validator replica for a hand-built block; the untampered twin must be accepted at both. " +
			"non-trivial = chain with >=1 block carrying a confidential and a contract transaction / tamper case with >=1 accepted control and >=10 tampered variants; distinct by hash of the block hashes / variant list",
		Assumptions: []string{
			"libxcrypto is replaced by the stand-in of DESIGN.md §2: real algebra (Pedersen commitments over ed25519, binding 2-row MLSAG, CryptoNote ring signature) and a sound 64-bit range check, but not bit-compatible with Monero's bulletproofs (the proof reveals amount and mask to the verifier)",
			"value flows of contract calls are predicted from purpose-built EVM contracts; gasUsed and status are taken from the receipts (not modelled)",
			"WASM contracts are only exercised through the fee collector (foundation contract) called by processBlock",
		},
		Cases: func(tier string) int {
			if tier == "thorough" {
				return 3200
			}
			return 96
		},
		Run:    run,
		Floors: floors,
		Init:   core.QuietLogs,
	})
}

func floors(tier string) map[string]int64 {
	return map[string]int64{}
}

func run(c *core.Ctx) {
	var seed [16]byte
	binary.LittleEndian.PutUint64(seed[:8], c.Seed)
	binary.LittleEndian.PutUint64(seed[8:], uint64(c.Index))
	goshim.Seed(seed[:])
	if c.Index%2 == 0 {
		runChain(c)
	} else {
		runTamper(c)
	}
}
