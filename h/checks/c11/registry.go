package c11

import (
	"reflect"
	"sort"
	"unsafe"

	"github.com/lianxiangcloud/linkchain/libs/ser"
)

// The codec instance of libs/ser is an unexported package variable. The check
// needs to enumerate *every* registered concrete type and interface (the
// property quantifies over "all registered types"), so it reads the variable
// through a linkname (read-only introspection; nothing is modified).
//
//go:linkname serCodec github.com/lianxiangcloud/linkchain/libs/ser.cdc
var serCodec *ser.Codec

type regConcrete struct {
	Type             reflect.Type
	PointerPreferred bool
	Name             string
	Disfix           [7]byte
}

type regInterface struct {
	Type    reflect.Type
	Impl    []*regConcrete // concrete types whose pointer type implements the interface, ordered by name
	natural []*regConcrete
}

func unexportedField(v reflect.Value, name string) reflect.Value {
	f := v.FieldByName(name)
	return reflect.NewAt(f.Type(), unsafe.Pointer(f.UnsafeAddr())).Elem()
}

// readRegistry returns the registered concrete types (sorted by name) and interfaces (sorted by type string).
func readRegistry() ([]*regConcrete, []*regInterface) {
	cv := reflect.ValueOf(serCodec).Elem()
	conc := unexportedField(cv, "concreteInfos").Interface().([]*ser.TypeInfo)
	ifcs := unexportedField(cv, "interfaceInfos").Interface().([]*ser.TypeInfo)
	var cs []*regConcrete
	for _, ti := range conc {
		if !allowedPkg(ti.Type.PkgPath()) {
			continue
		}
		rc := &regConcrete{Type: ti.Type, PointerPreferred: ti.PointerPreferred, Name: ti.Name}
		copy(rc.Disfix[0:3], ti.Disamb[:])
		copy(rc.Disfix[3:7], ti.Prefix[:])
		cs = append(cs, rc)
	}
	sort.Slice(cs, func(i, j int) bool { return cs[i].Name < cs[j].Name })
	var is []*regInterface
	for _, ti := range ifcs {
		if !allowedPkg(ti.Type.PkgPath()) {
			continue
		}
		ri := &regInterface{Type: ti.Type}
		for _, c := range cs {
			if reflect.PtrTo(c.Type).Implements(ti.Type) {
				// the value form the decoder builds must be assignable to the interface
				if c.PointerPreferred || c.Type.Implements(ti.Type) {
					ri.Impl = append(ri.Impl, c)
				}
			}
		}
		is = append(is, ri)
	}
	sort.Slice(is, func(i, j int) bool { return is[i].Type.String() < is[j].Type.String() })
	return cs, is
}

// The registry seen by the check is restricted to the packages the property
// names, so that the list of targets (and hence the case -> target mapping and
// every replay) does not depend on which other packages happen to be linked
// into the binary (rpc, wallet ... register further types).
const repoPath = "github.com/lianxiangcloud/linkchain/"

var allowedPkgs = []string{"types", "consensus", "mempool", "blockchain", "evidence", "state", "libs/crypto", "libs/p2p/conn", "libs/p2p/discover"}

func allowedPkg(p string) bool {
	for _, a := range allowedPkgs {
		if p == repoPath+a {
			return true
		}
	}
	return false
}

type registry struct {
	concrete []*regConcrete
	ifaces   []*regInterface
	iface    map[reflect.Type]*regInterface
	byType   map[reflect.Type]*regConcrete
	byDisfix map[[7]byte]*regConcrete
	byName   map[string]*regConcrete
}

func loadRegistry() *registry {
	cs, is := readRegistry()
	reg := &registry{concrete: cs, ifaces: is, iface: map[reflect.Type]*regInterface{}, byType: map[reflect.Type]*regConcrete{},
		byDisfix: map[[7]byte]*regConcrete{}, byName: map[string]*regConcrete{}}
	for _, c := range cs {
		reg.byType[c.Type] = c
		reg.byDisfix[c.Disfix] = c
		reg.byName[c.Name] = c
	}
	for _, i := range is {
		reg.iface[i.Type] = i
		for _, c := range i.Impl {
			if c.Type.PkgPath() == i.Type.PkgPath() {
				i.natural = append(i.natural, c)
			}
		}
	}
	return reg
}

type picker interface{ Intn(int) int }

// pick chooses an implementer: mostly one declared in the interface's own package
// (what the node sends), sometimes any registered type the interface admits.
func (ri *regInterface) pick(r picker) *regConcrete {
	if len(ri.natural) > 0 && r.Intn(10) < 7 {
		return ri.natural[r.Intn(len(ri.natural))]
	}
	return ri.Impl[r.Intn(len(ri.Impl))]
}
