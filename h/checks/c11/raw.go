package c11

import (
	"bytes"
	"encoding/binary"
	"fmt"
	"time"

	"github.com/lianxiangcloud/linkchain/libs/ser"

	"verif/h/internal/rng"
)

// The raw entry points: ser.Split / SplitString / SplitList / CountValues work on undecoded bytes (the trie's
// node decoder, proof verification and the state object's storage reads go through them with bytes that come
// from peers and from disk). They are compared with a reference header parser written from the encoding rules
// (canonical sizes, value must lie inside the input), on valid encodings, their truncations and on headers
// whose declared size sits on the arithmetic boundaries (2^64-1 .. 2^64-16, 2^63, 2^32, input length +-1).
// Oracle: no panic, returns (a call that has not returned after rawWatchdog is reported: it can only be an
// endless loop on an input of at most 64 KiB), accepts exactly what the reference accepts, and on success
// content and rest are the sub-slices the header describes.
const rawPerCase = 24
const rawWatchdog = 30 * time.Second

type refHead struct {
	list    bool
	tag, sz uint64
	ok      bool
}

// refKind parses one header by the encoding rules; ok=false when the value is malformed or does not fit in b.
func refKind(b []byte) refHead {
	if len(b) == 0 {
		return refHead{}
	}
	c := b[0]
	long := func(n int, list bool) refHead {
		if len(b) < 1+n {
			return refHead{}
		}
		if b[1] == 0 {
			return refHead{} // leading zero in the size
		}
		var s uint64
		for _, x := range b[1 : 1+n] {
			s = s<<8 | uint64(x)
		}
		if s < 56 {
			return refHead{} // should have used the short form
		}
		room := uint64(len(b) - 1 - n)
		if s > room {
			return refHead{}
		}
		return refHead{list: list, tag: uint64(1 + n), sz: s, ok: true}
	}
	switch {
	case c < 0x80:
		return refHead{tag: 0, sz: 1, ok: true}
	case c < 0xB8:
		s := uint64(c - 0x80)
		if s == 1 && len(b) > 1 && b[1] < 0x80 {
			return refHead{}
		}
		if s > uint64(len(b)-1) {
			return refHead{}
		}
		return refHead{tag: 1, sz: s, ok: true}
	case c < 0xC0:
		return long(int(c-0xB7), false)
	case c < 0xF8:
		s := uint64(c - 0xC0)
		if s > uint64(len(b)-1) {
			return refHead{}
		}
		return refHead{list: true, tag: 1, sz: s, ok: true}
	default:
		return long(int(c-0xF7), true)
	}
}

func refCount(b []byte) (int, bool) {
	n := 0
	for len(b) > 0 {
		h := refKind(b)
		if !h.ok {
			return 0, false
		}
		b = b[h.tag+h.sz:]
		n++
	}
	return n, true
}

func boundarySize(r *rng.R, inputLen int) uint64 {
	switch r.Intn(8) {
	case 0:
		return ^uint64(0) - uint64(r.Intn(17)) // 2^64-1 .. 2^64-17
	case 1:
		return 1<<63 + uint64(r.Intn(3)) - 1
	case 2:
		return 1<<32 + uint64(r.Intn(3)) - 1
	case 3:
		return 1<<31 + uint64(r.Intn(3)) - 1
	case 4:
		return uint64(inputLen + r.Intn(5) - 2)
	case 5:
		return uint64(55 + r.Intn(3))
	case 6:
		return ^uint64(0) - uint64(inputLen) + uint64(r.Intn(5)) - 2
	default:
		return r.Uint64() >> uint(r.Intn(64))
	}
}

func forgedHeader(r *rng.R) []byte {
	body := r.Bytes(r.Intn(80))
	size := boundarySize(r, len(body))
	var sb [8]byte
	binary.BigEndian.PutUint64(sb[:], size)
	n := 8
	if r.Chance(0.7) {
		// the shortest size field that holds the size (canonical), sometimes one byte more (leading zero)
		n = 1
		for n < 8 && size>>(8*uint(n)) != 0 {
			n++
		}
		if r.Chance(0.1) && n < 8 {
			n++
		}
	}
	base := byte(0xB7)
	if r.Bool() {
		base = 0xF7
	}
	out := append([]byte{base + byte(n)}, sb[8-n:]...)
	return append(out, body...)
}

func (cs *caseState) rawLane(r *rng.R, valids []validEnc) {
	c := cs.c
	for i := 0; i < rawPerCase; i++ {
		var b []byte
		class := ""
		switch x := r.Intn(10); {
		case x < 2 && len(valids) > 0:
			b, class = valids[r.Intn(len(valids))].enc, "valid"
		case x < 4 && len(valids) > 0:
			e := valids[r.Intn(len(valids))].enc
			if len(e) > 1 {
				e = e[:r.Range(1, len(e)-1)]
			}
			b, class = e, "truncated"
		case x < 5 && len(valids) > 0:
			// several values in a row (what CountValues walks)
			for j, n := 0, r.Range(2, 5); j < n; j++ {
				b = append(b, valids[r.Intn(len(valids))].enc...)
			}
			class = "sequence"
		case x < 9:
			b, class = forgedHeader(r), "forged-size"
			if r.Chance(0.3) && len(valids) > 0 {
				b = append(append([]byte{}, valids[r.Intn(len(valids))].enc...), b...)
				class = "valid+forged-size"
			}
		default:
			b, class = r.Bytes(r.Range(1, 40)), "random"
		}
		if len(b) > maxHostile {
			b = b[:maxHostile]
		}
		c.Count("raw_inputs", 1)
		c.Count("raw_class:"+class, 1)
		in := append([]byte{}, b...)
		type res struct {
			k             ser.Kind
			content, rest []byte
			n             int
			err           error
			p             interface{}
		}
		call := func(name string, f func() res) (res, bool) {
			done := make(chan res, 1)
			go func() {
				defer func() {
					if p := recover(); p != nil {
						done <- res{p: p}
					}
				}()
				done <- f()
			}()
			select {
			case x := <-done:
				if x.p != nil {
					cs.violation(vkey("raw-panic", name, panicClass(fmt.Sprint(x.p))), fmt.Sprintf("ser.%s panicked on a %d-byte input: %v", name, len(in), x.p), map[string]interface{}{"input": hexw(in), "class": class})
					return x, false
				}
				return x, true
			case <-time.After(rawWatchdog):
				cs.violation(vkey("raw-does-not-return", name), fmt.Sprintf("ser.%s has not returned %v after it was given a %d-byte input", name, rawWatchdog, len(in)), map[string]interface{}{"input": hexw(in), "class": class})
				return res{}, false
			}
		}
		h := refKind(in)
		w := func() map[string]interface{} {
			return map[string]interface{}{"input": hexw(in), "class": class, "reference": fmt.Sprintf("ok=%v list=%v tag=%d size=%d", h.ok, h.list, h.tag, h.sz)}
		}
		sp, ok := call("Split", func() res { k, ct, rest, err := ser.Split(b); return res{k: k, content: ct, rest: rest, err: err} })
		if !ok {
			return
		}
		c.Count("raw_calls", 1)
		switch {
		case (sp.err == nil) != h.ok:
			cs.violation(vkey("raw-differs-from-reference", "Split", "accept"), fmt.Sprintf("ser.Split err=%v, the reference parser says well-formed=%v", sp.err, h.ok), w())
		case h.ok:
			c.Count("raw_accepted", 1)
			if (sp.k == ser.List) != h.list || !bytes.Equal(sp.content, in[h.tag:h.tag+h.sz]) || !bytes.Equal(sp.rest, in[h.tag+h.sz:]) {
				cs.violation(vkey("raw-differs-from-reference", "Split", "content"), "ser.Split returned another kind / content / rest than the header describes", w())
			}
		default:
			c.Count("raw_rejected", 1)
		}
		for _, name := range []string{"SplitString", "SplitList"} {
			wantList := name == "SplitList"
			x, ok := call(name, func() res {
				var ct, rest []byte
				var err error
				if wantList {
					ct, rest, err = ser.SplitList(b)
				} else {
					ct, rest, err = ser.SplitString(b)
				}
				return res{content: ct, rest: rest, err: err}
			})
			if !ok {
				return
			}
			c.Count("raw_calls", 1)
			want := h.ok && h.list == wantList
			if (x.err == nil) != want {
				cs.violation(vkey("raw-differs-from-reference", name, "accept"), fmt.Sprintf("ser.%s err=%v, the reference parser says it is such a value: %v", name, x.err, want), w())
			} else if want && (!bytes.Equal(x.content, in[h.tag:h.tag+h.sz]) || !bytes.Equal(x.rest, in[h.tag+h.sz:])) {
				cs.violation(vkey("raw-differs-from-reference", name, "content"), "ser."+name+" returned another content / rest than the header describes", w())
			}
		}
		cv, ok := call("CountValues", func() res { n, err := ser.CountValues(b); return res{n: n, err: err} })
		if !ok {
			return
		}
		c.Count("raw_calls", 1)
		wn, wok := refCount(in)
		if (cv.err == nil) != wok || (wok && cv.n != wn) {
			cs.violation(vkey("raw-differs-from-reference", "CountValues"), fmt.Sprintf("ser.CountValues = %d, %v; the reference walk gives %d values, well-formed=%v", cv.n, cv.err, wn, wok), w())
		}
		if !bytes.Equal(in, b) {
			cs.violation(vkey("raw-input-modified", "Split"), "the raw functions changed their input", w())
		}
	}
}
