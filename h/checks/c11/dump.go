package c11

import (
	"fmt"
	"reflect"

	"github.com/lianxiangcloud/linkchain/libs/ser"
)

var encIface = reflect.TypeOf(new(ser.Encoder)).Elem()
var decIface = reflect.TypeOf(new(ser.Decoder)).Elem()

// DumpTypes prints the registered types and the reachable type tree (development aid).
func DumpTypes() {
	cs, is := readRegistry()
	fmt.Println("== concrete")
	for _, c := range cs {
		fmt.Printf("%-45s ptr=%v %v disfix=%x\n", c.Name, c.PointerPreferred, c.Type, c.Disfix)
	}
	fmt.Println("== interfaces")
	for _, i := range is {
		fmt.Printf("%v nmeth=%d impl=%d:", i.Type, i.Type.NumMethod(), len(i.Impl))
		if i.Type.NumMethod() > 0 {
			for _, c := range i.Impl {
				fmt.Printf(" %s", c.Name)
			}
		}
		fmt.Println()
	}
	fmt.Println("== tree")
	seen := map[reflect.Type]bool{}
	var walk func(t reflect.Type, depth int)
	walk = func(t reflect.Type, depth int) {
		if seen[t] {
			return
		}
		seen[t] = true
		flags := ""
		if t.Implements(encIface) || reflect.PtrTo(t).Implements(encIface) {
			flags += " ENC"
		}
		if t.Implements(decIface) || reflect.PtrTo(t).Implements(decIface) {
			flags += " DEC"
		}
		switch t.Kind() {
		case reflect.Struct:
			fmt.Printf("struct %v%s\n", t, flags)
			for i := 0; i < t.NumField(); i++ {
				f := t.Field(i)
				ex := "  "
				if f.PkgPath != "" {
					ex = "u "
				}
				fmt.Printf("    %s%-28s %-50v %s\n", ex, f.Name, f.Type, f.Tag)
			}
			for i := 0; i < t.NumField(); i++ {
				walk(t.Field(i).Type, depth+1)
			}
		case reflect.Ptr, reflect.Slice, reflect.Array:
			walk(t.Elem(), depth+1)
		case reflect.Map:
			fmt.Printf("map %v\n", t)
			walk(t.Key(), depth+1)
			walk(t.Elem(), depth+1)
		case reflect.Interface:
			fmt.Printf("interface %v nmeth=%d\n", t, t.NumMethod())
		default:
			if flags != "" || t.PkgPath() != "" {
				fmt.Printf("named %v kind=%v%s\n", t, t.Kind(), flags)
			}
		}
	}
	for _, c := range cs {
		walk(c.Type, 0)
	}
	for _, t := range extraRoots() {
		walk(t, 0)
	}
}
