package c11

import (
	"fmt"
	"math/big"
	"reflect"
	"time"
	"unsafe"
)

// eqValue decides "equal value" for the round-trip law. It is deep equality with
// exactly these identifications, each of which is a documented rule of the
// encoding (libs/ser/encode.go Encode, decode.go Decode) or of Go value equality:
//   - a nil slice/map equals an empty slice/map;
//   - a nil *big.Int equals a *big.Int holding 0 ("for nil pointers, Encode will
//     encode the zero value of the type"; the decoder always allocates);
//   - time.Time values are compared as instants (time.Time.Equal; the encoding
//     carries seconds and nanoseconds, not the location);
//   - unexported fields are not part of the value (caches), except the payload
//     field of a type with a hand-written codec and no exported field
//     (types.Transaction.data, types.TokenTransaction.data).
//
// Everything else — pointer nil-ness, interface dynamic type (pointer vs value
// form included), every exported field, array/slice length, map keys — must match.
// It returns "" when equal, else a path and reason.
func eqValue(a, b reflect.Value, path string) string {
	if a.IsValid() != b.IsValid() {
		return path + ": one side invalid"
	}
	if !a.IsValid() {
		return ""
	}
	if a.Type() != b.Type() {
		return fmt.Sprintf("%s: type %v vs %v", path, a.Type(), b.Type())
	}
	t := a.Type()
	switch {
	case t == timeType:
		ta, tb := asTime(a), asTime(b)
		if !ta.Equal(tb) {
			return fmt.Sprintf("%s: time %v vs %v", path, ta.UTC(), tb.UTC())
		}
		return ""
	case t == bigIntPtr:
		var xa, xb *big.Int
		if !a.IsNil() {
			xa = a.Interface().(*big.Int)
		}
		if !b.IsNil() {
			xb = b.Interface().(*big.Int)
		}
		if xa == nil {
			xa = new(big.Int)
		}
		if xb == nil {
			xb = new(big.Int)
		}
		if xa.Cmp(xb) != 0 {
			return fmt.Sprintf("%s: big %v vs %v", path, xa, xb)
		}
		return ""
	case t == bigIntType:
		xa, xb := a.Interface().(big.Int), b.Interface().(big.Int)
		if xa.Cmp(&xb) != 0 {
			return fmt.Sprintf("%s: big %v vs %v", path, &xa, &xb)
		}
		return ""
	}
	switch t.Kind() {
	case reflect.Bool:
		if a.Bool() != b.Bool() {
			return fmt.Sprintf("%s: %v vs %v", path, a.Bool(), b.Bool())
		}
	case reflect.Int, reflect.Int8, reflect.Int16, reflect.Int32, reflect.Int64:
		if a.Int() != b.Int() {
			return fmt.Sprintf("%s: %d vs %d", path, a.Int(), b.Int())
		}
	case reflect.Uint, reflect.Uint8, reflect.Uint16, reflect.Uint32, reflect.Uint64, reflect.Uintptr:
		if a.Uint() != b.Uint() {
			return fmt.Sprintf("%s: %d vs %d", path, a.Uint(), b.Uint())
		}
	case reflect.String:
		if a.String() != b.String() {
			return fmt.Sprintf("%s: %q vs %q", path, a.String(), b.String())
		}
	case reflect.Slice:
		if a.Len() != b.Len() {
			return fmt.Sprintf("%s: len %d vs %d", path, a.Len(), b.Len())
		}
		for i := 0; i < a.Len(); i++ {
			if d := eqValue(a.Index(i), b.Index(i), fmt.Sprintf("%s[%d]", path, i)); d != "" {
				return d
			}
		}
	case reflect.Array:
		for i := 0; i < a.Len(); i++ {
			if d := eqValue(a.Index(i), b.Index(i), fmt.Sprintf("%s[%d]", path, i)); d != "" {
				return d
			}
		}
	case reflect.Map:
		if a.Len() != b.Len() {
			return fmt.Sprintf("%s: map len %d vs %d", path, a.Len(), b.Len())
		}
		for _, k := range a.MapKeys() {
			vb := b.MapIndex(k)
			if !vb.IsValid() {
				return fmt.Sprintf("%s: key %v missing", path, k.Interface())
			}
			if d := eqValue(a.MapIndex(k), vb, fmt.Sprintf("%s[%v]", path, k.Interface())); d != "" {
				return d
			}
		}
	case reflect.Ptr:
		if a.IsNil() != b.IsNil() {
			return fmt.Sprintf("%s: nil %v vs nil %v", path, a.IsNil(), b.IsNil())
		}
		if !a.IsNil() {
			return eqValue(a.Elem(), b.Elem(), path+"*")
		}
	case reflect.Interface:
		if a.IsNil() != b.IsNil() {
			return fmt.Sprintf("%s: nil interface %v vs %v", path, a.IsNil(), b.IsNil())
		}
		if !a.IsNil() {
			return eqValue(a.Elem(), b.Elem(), path+".("+a.Elem().Type().String()+")")
		}
	case reflect.Struct:
		pf := payloadFields(t)
		if len(pf) > 0 {
			a, b = addressable(a), addressable(b)
			for _, i := range pf {
				if d := eqValue(settable(a, i), settable(b, i), path+"."+t.Field(i).Name); d != "" {
					return d
				}
			}
			return ""
		}
		for i := 0; i < t.NumField(); i++ {
			if t.Field(i).PkgPath != "" {
				continue
			}
			if d := eqValue(a.Field(i), b.Field(i), path+"."+t.Field(i).Name); d != "" {
				return d
			}
		}
	default:
		return fmt.Sprintf("%s: kind %v not comparable by the oracle", path, t.Kind())
	}
	return ""
}

func addressable(v reflect.Value) reflect.Value {
	if v.CanAddr() {
		return v
	}
	p := reflect.New(v.Type())
	p.Elem().Set(v)
	return p.Elem()
}

func asTime(v reflect.Value) time.Time {
	if v.CanInterface() {
		return v.Interface().(time.Time)
	}
	v = addressable(v)
	return *(*time.Time)(unsafe.Pointer(v.UnsafeAddr()))
}
