package c11

import (
	"encoding/binary"
	"errors"
	"fmt"
	"reflect"

	"verif/h/internal/rng"
)

// A type-directed parse of a *valid* encoding into a tree, so that hostile
// variants can be produced that stay well-formed everywhere except at the
// mutated node (and therefore reach deep into the decoder). The parser follows
// the documented format: RLP items, with the 7 raw disambiguation+prefix bytes
// (or a single 0x00 for nil) in front of the value of a registered interface.

const (
	nStr  = iota // RLP string (content in data)
	nList        // RLP list (kids)
	nRaw         // raw bytes (interface prefix / nil marker)
	nSeq         // concatenation of kids without header (prefix + body)
)

const (
	semNone = iota
	semBytes
	semInt  // signed integer as hex text
	semUint // big-endian unsigned
	semBool
	semBig
	semMapLen // element count of a map (hex text)
	semPrefix // 7-byte disfix
	semNilIface
)

type node struct {
	kind int
	sem  int
	data []byte
	kids []*node
	typ  reflect.Type // static type the node was parsed for (may be nil)

	// deliberate malformations applied at serialisation
	hasClaim bool
	claim    uint64 // size written into the header instead of the real one
	lenBytes int    // force the long header form with this many size bytes (0 = canonical)
	forceHdr bool   // write a header even for a single byte < 0x80
	flipTag  bool   // string header for a list and vice versa
}

var errParse = errors.New("c11: valid encoding does not parse with the reference reader")

type parser struct {
	b   []byte
	pos int
	reg *registry
}

// item reads one RLP item header at pos: returns kind (nStr/nList), content start and end.
func (p *parser) item(limit int) (kind int, cs, ce int, err error) {
	if p.pos >= limit {
		return 0, 0, 0, errParse
	}
	b0 := p.b[p.pos]
	var size uint64
	hs := 1
	switch {
	case b0 < 0x80:
		return nStr, p.pos, p.pos + 1, nil
	case b0 < 0xb8:
		kind, size = nStr, uint64(b0-0x80)
	case b0 < 0xc0:
		n := int(b0 - 0xb7)
		if p.pos+1+n > limit {
			return 0, 0, 0, errParse
		}
		var buf [8]byte
		copy(buf[8-n:], p.b[p.pos+1:p.pos+1+n])
		kind, size, hs = nStr, binary.BigEndian.Uint64(buf[:]), 1+n
	case b0 < 0xf8:
		kind, size = nList, uint64(b0-0xc0)
	default:
		n := int(b0 - 0xf7)
		if p.pos+1+n > limit {
			return 0, 0, 0, errParse
		}
		var buf [8]byte
		copy(buf[8-n:], p.b[p.pos+1:p.pos+1+n])
		kind, size, hs = nList, binary.BigEndian.Uint64(buf[:]), 1+n
	}
	cs = p.pos + hs
	if size > uint64(limit-cs) {
		return 0, 0, 0, errParse
	}
	return kind, cs, cs + int(size), nil
}

// generic parses one item without type information.
func (p *parser) generic(limit int) (*node, error) {
	k, cs, ce, err := p.item(limit)
	if err != nil {
		return nil, err
	}
	if k == nStr {
		p.pos = ce
		return &node{kind: nStr, sem: semBytes, data: append([]byte{}, p.b[cs:ce]...)}, nil
	}
	n := &node{kind: nList}
	p.pos = cs
	for p.pos < ce {
		c, err := p.generic(ce)
		if err != nil {
			return nil, err
		}
		n.kids = append(n.kids, c)
	}
	return n, nil
}

func (p *parser) leaf(limit int, sem int, t reflect.Type) (*node, error) {
	k, cs, ce, err := p.item(limit)
	if err != nil || k != nStr {
		return nil, errParse
	}
	p.pos = ce
	return &node{kind: nStr, sem: sem, data: append([]byte{}, p.b[cs:ce]...), typ: t}, nil
}

func (p *parser) value(t reflect.Type, limit int) (*node, error) {
	switch {
	case t == rawValueType:
		return p.generic(limit)
	case hasCustomCodec(t):
		n, err := p.generic(limit)
		if n != nil {
			n.typ = t
		}
		return n, err
	case t == bigIntPtr || t == bigIntType:
		return p.leaf(limit, semBig, t)
	case t == timeType:
		k, cs, ce, err := p.item(limit)
		if err != nil || k != nList {
			return nil, errParse
		}
		n := &node{kind: nList, typ: t}
		p.pos = cs
		for i := 0; i < 2; i++ {
			c, err := p.leaf(ce, semInt, nil)
			if err != nil {
				return nil, err
			}
			n.kids = append(n.kids, c)
		}
		if p.pos != ce {
			return nil, errParse
		}
		return n, nil
	}
	switch t.Kind() {
	case reflect.Interface:
		ri := p.reg.iface[t]
		if ri == nil {
			return p.generic(limit)
		}
		if p.pos >= limit {
			return nil, errParse
		}
		if p.b[p.pos] == 0 {
			p.pos++
			return &node{kind: nRaw, sem: semNilIface, data: []byte{0}, typ: t}, nil
		}
		if p.pos+7 > limit {
			return nil, errParse
		}
		var df [7]byte
		copy(df[:], p.b[p.pos:p.pos+7])
		rc := p.reg.byDisfix[df]
		if rc == nil {
			return nil, errParse
		}
		p.pos += 7
		body, err := p.value(rc.Type, limit)
		if err != nil {
			return nil, err
		}
		return &node{kind: nSeq, typ: t, kids: []*node{{kind: nRaw, sem: semPrefix, data: df[:], typ: t}, body}}, nil
	case reflect.Ptr:
		k, cs, ce, err := p.item(limit)
		if err != nil {
			return nil, err
		}
		if cs == ce && p.b[p.pos] >= 0x80 { // empty string / empty list: nil pointer
			_ = k
			return p.generic(limit)
		}
		return p.value(t.Elem(), limit)
	case reflect.Bool:
		return p.leaf(limit, semBool, t)
	case reflect.Int, reflect.Int8, reflect.Int16, reflect.Int32, reflect.Int64:
		return p.leaf(limit, semInt, t)
	case reflect.Uint, reflect.Uint8, reflect.Uint16, reflect.Uint32, reflect.Uint64, reflect.Uintptr:
		return p.leaf(limit, semUint, t)
	case reflect.String:
		return p.leaf(limit, semBytes, t)
	case reflect.Slice, reflect.Array:
		if t.Elem().Kind() == reflect.Uint8 {
			return p.leaf(limit, semBytes, t)
		}
		k, cs, ce, err := p.item(limit)
		if err != nil || k != nList {
			return nil, errParse
		}
		n := &node{kind: nList, typ: t}
		p.pos = cs
		for p.pos < ce {
			c, err := p.value(t.Elem(), ce)
			if err != nil {
				return nil, err
			}
			n.kids = append(n.kids, c)
		}
		return n, nil
	case reflect.Map:
		k, cs, ce, err := p.item(limit)
		if err != nil || k != nList {
			return nil, errParse
		}
		n := &node{kind: nList, typ: t}
		p.pos = cs
		if cs == ce {
			return n, nil
		}
		c, err := p.leaf(ce, semMapLen, nil)
		if err != nil {
			return nil, err
		}
		n.kids = append(n.kids, c)
		for p.pos < ce {
			kn, err := p.value(t.Key(), ce)
			if err != nil {
				return nil, err
			}
			vn, err := p.value(t.Elem(), ce)
			if err != nil {
				return nil, err
			}
			n.kids = append(n.kids, kn, vn)
		}
		return n, nil
	case reflect.Struct:
		k, cs, ce, err := p.item(limit)
		if err != nil || k != nList {
			return nil, errParse
		}
		n := &node{kind: nList, typ: t}
		p.pos = cs
		if cs == ce {
			return n, nil
		}
		for i := 0; i < t.NumField(); i++ {
			f := t.Field(i)
			if f.PkgPath != "" || rlpIgnored(f) {
				continue
			}
			c, err := p.value(f.Type, ce)
			if err != nil {
				return nil, err
			}
			n.kids = append(n.kids, c)
		}
		if p.pos != ce {
			return nil, errParse
		}
		return n, nil
	}
	return nil, errParse
}

// parseEncoding parses enc as the encoding of a value of type t; typed = the
// encoding starts with the 7 prefix bytes of the registered concrete type t.
func parseEncoding(reg *registry, enc []byte, t reflect.Type, typed bool) (root *node, err error) {
	defer func() {
		if r := recover(); r != nil {
			root, err = nil, fmt.Errorf("reference reader panicked: %v", r)
		}
	}()
	p := &parser{b: enc, reg: reg}
	var pre *node
	if typed {
		if len(enc) < 7 {
			return nil, errParse
		}
		pre = &node{kind: nRaw, sem: semPrefix, data: append([]byte{}, enc[:7]...)}
		p.pos = 7
	}
	body, err := p.value(t, len(enc))
	if err != nil {
		return nil, err
	}
	if p.pos != len(enc) {
		return nil, errParse
	}
	if pre != nil {
		return &node{kind: nSeq, kids: []*node{pre, body}}, nil
	}
	return body, nil
}

func putHeader(out []byte, base byte, size uint64, lenBytes int) []byte {
	if lenBytes == 0 && size < 56 {
		return append(out, base+byte(size))
	}
	n := lenBytes
	if n == 0 {
		n = 1
		for s := size >> 8; s != 0; s >>= 8 {
			n++
		}
	}
	if n > 8 {
		n = 8
	}
	out = append(out, base+55+byte(n))
	var buf [8]byte
	binary.BigEndian.PutUint64(buf[:], size)
	return append(out, buf[8-n:]...)
}

// serialize appends the (possibly malformed) encoding of the tree to out. Sizes are
// computed in one pass first so that deep chains cost linear, not quadratic, time.
func (n *node) serialize(out []byte) []byte {
	sizes := map[*node]int{}
	n.measure(sizes)
	return n.emit(out, sizes)
}

func headerLen(size uint64, lenBytes int) int {
	if lenBytes == 0 && size < 56 {
		return 1
	}
	k := lenBytes
	if k == 0 {
		k = 1
		for s := size >> 8; s != 0; s >>= 8 {
			k++
		}
	}
	if k > 8 {
		k = 8
	}
	return 1 + k
}

func (n *node) bare() bool {
	return n.kind == nStr && !n.flipTag && len(n.data) == 1 && n.data[0] < 0x80 && !n.forceHdr && !n.hasClaim && n.lenBytes == 0
}

// measure returns the serialised size of n and records the payload size of lists/strings.
func (n *node) measure(sizes map[*node]int) int {
	switch n.kind {
	case nRaw:
		return len(n.data)
	case nSeq:
		t := 0
		for _, k := range n.kids {
			t += k.measure(sizes)
		}
		return t
	}
	payload := len(n.data)
	if n.kind == nList {
		payload = 0
		for _, k := range n.kids {
			payload += k.measure(sizes)
		}
	}
	sizes[n] = payload
	if n.bare() {
		return 1
	}
	size := uint64(payload)
	if n.hasClaim {
		size = n.claim
	}
	return headerLen(size, n.lenBytes) + payload
}

func (n *node) emit(out []byte, sizes map[*node]int) []byte {
	switch n.kind {
	case nRaw:
		return append(out, n.data...)
	case nSeq:
		for _, k := range n.kids {
			out = k.emit(out, sizes)
		}
		return out
	}
	if n.bare() {
		return append(out, n.data[0])
	}
	base := byte(0x80)
	if (n.kind == nList) != n.flipTag {
		base = 0xc0
	}
	size := uint64(sizes[n])
	if n.hasClaim {
		size = n.claim
	}
	out = putHeader(out, base, size, n.lenBytes)
	if n.kind == nStr {
		return append(out, n.data...)
	}
	for _, k := range n.kids {
		out = k.emit(out, sizes)
	}
	return out
}

func (n *node) walk(f func(*node, *node), parent *node) {
	f(n, parent)
	for _, k := range n.kids {
		k.walk(f, n)
	}
}

var hostileInts = []string{"-1", "-0", "00", "01", "+1", "7fffffffffffffff", "-8000000000000000", "8000000000000000", "ffffffffffffffff",
	"-ffffffffffffffff", "FF", "0x1", "", " 1", "1 ", "g", "-", "7fffffff", "80000000", "-80000001", "100000000", "ff", "100", "10000", "-7f", "80", "1_0"}

var hugeSizes = []uint64{56, 255, 256, 65535, 65536, 1 << 24, 1<<31 - 1, 1 << 31, 1 << 32, 1 << 40, 1 << 48, 1<<63 - 1, 1 << 63, 1<<64 - 1}

// mapLens: element counts claimed for a map. Zones: small lies; "detect" sizes whose
// pre-allocation is tens of MiB (visible to the allocation monitor without endangering
// the host); sizes that overflow the runtime's hint computation; negatives.
func hostileMapLen(r *rng.R) (string, string) {
	switch r.Intn(10) {
	case 0:
		return fmt.Sprintf("%x", r.Range(1, 40)), "small"
	case 1:
		return fmt.Sprintf("-%x", r.Range(1, 1<<20)), "negative"
	case 2, 3, 4, 5:
		return fmt.Sprintf("%x", (1<<19)+r.Intn(3<<19)), "detect"
	case 6:
		// (sizes whose pre-allocation cannot be satisfied kill the process with a fatal
		// error; that zone is tried once per run in a sacrificial process, see sacrifice.go)
		return fmt.Sprintf("%x", (1<<19)+r.Intn(3<<19)), "detect"
	case 7:
		return "7fffffffffffffff", "overflow"
	default:
		return fmt.Sprintf("%x", uint64(1)<<uint(r.Range(41, 62))), "overflow"
	}
}

type mutator struct {
	name string
	ok   func(n, parent *node) bool
	do   func(m *mctx, n, parent *node) string // returns sub-class (may be "")
}

type mctx struct {
	r    *rng.R
	reg  *registry
	root *node
}

func (m *mctx) randPrefix(t reflect.Type) ([]byte, string) {
	switch m.r.Intn(10) {
	case 0:
		b := m.r.Bytes(7)
		if b[0] == 0 {
			b[0] = 1
		}
		return b, "unknown"
	case 1:
		return []byte{0xff, 0xff, 0xff, 0xff, 0xff, 0xff, 0xff}, "unknown"
	case 2, 3, 4:
		// a registered type the destination interface admits
		if ri := m.reg.iface[t]; ri != nil && len(ri.Impl) > 0 {
			rc := ri.Impl[m.r.Intn(len(ri.Impl))]
			return append([]byte{}, rc.Disfix[:]...), "admitted"
		}
		fallthrough
	default:
		rc := m.reg.concrete[m.r.Intn(len(m.reg.concrete))]
		return append([]byte{}, rc.Disfix[:]...), "any-registered"
	}
}

var mutators = []mutator{
	{"int-text", func(n, _ *node) bool { return n.sem == semInt }, func(m *mctx, n, _ *node) string {
		if m.r.Chance(0.2) {
			n.data = []byte(fmt.Sprintf("%x", m.r.Uint64()))
			if m.r.Bool() {
				n.data = append([]byte("-"), n.data...)
			}
			return ""
		}
		n.data = []byte(hostileInts[m.r.Intn(len(hostileInts))])
		return ""
	}},
	{"uint-bad", func(n, _ *node) bool { return n.sem == semUint }, func(m *mctx, n, _ *node) string {
		switch m.r.Intn(6) {
		case 0:
			n.data = append([]byte{0}, n.data...) // leading zero
		case 1:
			n.data = m.r.Bytes(9)
			n.data[0] |= 1
		case 2:
			n.data = []byte{0}
		case 3:
			n.data = []byte{0xff, 0xff, 0xff, 0xff, 0xff, 0xff, 0xff, 0xff}
		case 4:
			n.data = m.r.Bytes(m.r.Range(1, 8))
		default:
			n.forceHdr = true
		}
		return ""
	}},
	{"bool-bad", func(n, _ *node) bool { return n.sem == semBool }, func(m *mctx, n, _ *node) string {
		n.data = [][]byte{{2}, {0}, {0xff}, {1, 1}, {0x80}}[m.r.Intn(5)]
		return ""
	}},
	{"bytes-len", func(n, _ *node) bool { return n.sem == semBytes }, func(m *mctx, n, _ *node) string {
		switch m.r.Intn(5) {
		case 0:
			if len(n.data) > 0 {
				n.data = n.data[:len(n.data)-1]
			}
		case 1:
			n.data = append(n.data, byte(m.r.Intn(256)))
		case 2:
			n.data = nil
		case 3:
			n.data = append(n.data, n.data...)
		default:
			n.data = m.r.Bytes(m.r.Range(0, 70))
		}
		return ""
	}},
	{"big-bad", func(n, _ *node) bool { return n.sem == semBig }, func(m *mctx, n, _ *node) string {
		switch m.r.Intn(4) {
		case 0:
			n.data = append([]byte{0}, n.data...)
		case 1:
			n.data = m.r.Bytes(m.r.Range(100, 4000))
		case 2:
			n.data = []byte{0}
		default:
			n.forceHdr = true
		}
		return ""
	}},
	{"claim", func(n, _ *node) bool { return n.kind == nStr || n.kind == nList }, func(m *mctx, n, _ *node) string {
		n.hasClaim = true
		sizes := map[*node]int{}
		n.measure(sizes)
		actual := uint64(sizes[n])
		switch m.r.Intn(6) {
		case 0:
			n.claim = actual + 1
			return "plus1"
		case 1:
			if actual > 0 {
				n.claim = actual - 1
			}
			return "minus1"
		case 2:
			n.claim = actual + uint64(m.r.Range(2, 300))
			return "plus-small"
		default:
			n.claim = hugeSizes[m.r.Intn(len(hugeSizes))]
			if m.r.Bool() {
				n.lenBytes = 8
			}
			return "huge"
		}
	}},
	{"noncanon-header", func(n, _ *node) bool { return n.kind == nStr || n.kind == nList }, func(m *mctx, n, _ *node) string {
		if n.kind == nStr && len(n.data) == 1 && n.data[0] < 0x80 && m.r.Bool() {
			n.forceHdr = true
			return "single-byte"
		}
		n.lenBytes = m.r.Range(1, 8)
		return "long-form"
	}},
	{"prefix-swap", func(n, _ *node) bool { return n.sem == semPrefix && len(n.data) == 7 }, func(m *mctx, n, _ *node) string {
		if m.r.Chance(0.1) {
			n.data = []byte{0} // nil marker, body left dangling
			return "to-nil"
		}
		if m.r.Chance(0.1) {
			n.data = n.data[:m.r.Range(1, 6)] // short prefix
			return "short"
		}
		var cls string
		n.data, cls = m.randPrefix(n.typ)
		return cls
	}},
	{"nil-iface-to-prefix", func(n, _ *node) bool { return n.sem == semNilIface }, func(m *mctx, n, _ *node) string {
		var cls string
		n.data, cls = m.randPrefix(n.typ)
		switch m.r.Intn(3) {
		case 0:
			n.data = append(n.data, 0xc0)
		case 1:
			n.data = append(n.data, 0x80)
		}
		return cls
	}},
	{"map-len", func(n, _ *node) bool { return n.sem == semMapLen }, func(m *mctx, n, _ *node) string {
		s, cls := hostileMapLen(m.r)
		n.data = []byte(s)
		return cls
	}},
	{"kids-edit", func(n, _ *node) bool { return n.kind == nList && len(n.kids) > 0 }, func(m *mctx, n, _ *node) string {
		i := m.r.Intn(len(n.kids))
		switch m.r.Intn(4) {
		case 0:
			n.kids = append(append([]*node{}, n.kids[:i]...), n.kids[i+1:]...)
			return "drop"
		case 1:
			n.kids = append(n.kids[:i+1], n.kids[i:]...)
			return "dup"
		case 2:
			j := m.r.Intn(len(n.kids))
			n.kids[i], n.kids[j] = n.kids[j], n.kids[i]
			return "swap"
		default:
			n.kids = append(n.kids, &node{kind: nStr, data: m.r.Bytes(m.r.Range(0, 9))})
			return "append"
		}
	}},
	{"flip-tag", func(n, _ *node) bool { return n.kind == nStr || n.kind == nList }, func(m *mctx, n, _ *node) string {
		n.flipTag = true
		return ""
	}},
	{"empty", func(n, p *node) bool { return p != nil && (n.kind == nStr || n.kind == nList || n.kind == nSeq) }, func(m *mctx, n, _ *node) string {
		n.kids, n.data, n.sem = nil, nil, semNone
		if m.r.Bool() {
			n.kind = nList
		} else {
			n.kind = nStr
		}
		return ""
	}},
	{"wrap", func(n, p *node) bool { return n.kind == nStr || n.kind == nList }, func(m *mctx, n, _ *node) string {
		depth := []int{1, 2, 3, 50, 1000, 15000}[m.r.Intn(6)]
		inner := *n
		cur := &inner
		for i := 0; i < depth; i++ {
			cur = &node{kind: nList, kids: []*node{cur}}
		}
		*n = *cur
		if depth > 3 {
			return "deep"
		}
		return "shallow"
	}},
}

// nestMsgInfo wraps the whole (interface-level) encoding enc in depth levels of the
// registered recursive container consensus msgInfo{Msg ConsensusMessage; PeerID string}.
func nestMsgInfo(reg *registry, enc []byte, depth int) []byte {
	mi := reg.byName["consensus/wal/MsgInfo"]
	if mi == nil {
		return nil
	}
	cur := &node{kind: nRaw, data: enc}
	for i := 0; i < depth; i++ {
		cur = &node{kind: nSeq, kids: []*node{
			{kind: nRaw, data: mi.Disfix[:]},
			{kind: nList, kids: []*node{cur, {kind: nStr, data: []byte("p")}}},
		}}
	}
	return cur.serialize(nil)
}

// serializeFast is serialize for deep chains (avoids quadratic payload copying): not needed
// for ordinary trees, nestMsgInfo builds at most a few thousand levels.

// mutateTree applies k random mutations and returns the classes applied.
func mutateTree(r *rng.R, reg *registry, root *node, k int) []string {
	m := &mctx{r: r, reg: reg, root: root}
	var classes []string
	for i := 0; i < k; i++ {
		// pick a mutator first (so rare node kinds get their share), then a node it applies to
		for try := 0; try < 8; try++ {
			mu := mutators[r.Intn(len(mutators))]
			var cands [][2]*node
			root.walk(func(n, p *node) {
				if mu.ok(n, p) {
					cands = append(cands, [2]*node{n, p})
				}
			}, nil)
			if len(cands) == 0 {
				continue
			}
			c := cands[r.Intn(len(cands))]
			sub := mu.do(m, c[0], c[1])
			name := mu.name
			if sub != "" {
				name += ":" + sub
			}
			classes = append(classes, name)
			break
		}
	}
	return classes
}
