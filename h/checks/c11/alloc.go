package c11

import (
	"runtime"
	"strings"
)

// allocSite re-runs f and names the repository function that allocated the most
// bytes during it, from the runtime's heap profile (allocations larger than the
// default sampling period of 512 KiB are always sampled, which is exactly the
// kind of allocation an alarm is about). Only called after an alarm.
func allocSite(f func()) string {
	snapshot := func() map[[32]uintptr]int64 {
		runtime.GC()
		runtime.GC()
		n, _ := runtime.MemProfile(nil, true)
		recs := make([]runtime.MemProfileRecord, n+64)
		n, ok := runtime.MemProfile(recs, true)
		if !ok {
			return nil
		}
		m := map[[32]uintptr]int64{}
		for _, r := range recs[:n] {
			m[r.Stack0] += r.AllocBytes
		}
		return m
	}
	before := snapshot()
	f()
	after := snapshot()
	var best [32]uintptr
	var bestN int64
	for k, v := range after {
		if d := v - before[k]; d > bestN {
			best, bestN = k, d
		}
	}
	if bestN == 0 {
		return "unknown-site"
	}
	n := 0
	for n < len(best) && best[n] != 0 {
		n++
	}
	frames := runtime.CallersFrames(best[:n])
	for {
		fr, more := frames.Next()
		if strings.HasPrefix(fr.Function, repoPath) {
			return shortFunc(fr.Function)
		}
		if !more {
			break
		}
	}
	return "unknown-site"
}
