// Package c11: wire and storage encoding is canonical, lossless and safe on
// arbitrary input (DESIGN.md §5 C11).
package c11

import (
	"bytes"
	"crypto/sha256"
	"encoding/hex"
	"fmt"
	"io/ioutil"
	"os"
	"reflect"
	"strings"
	"sync"
	"syscall"

	"github.com/lianxiangcloud/linkchain/consensus"
	"github.com/lianxiangcloud/linkchain/evidence"
	"github.com/lianxiangcloud/linkchain/libs/common"
	"github.com/lianxiangcloud/linkchain/libs/ser"
	"github.com/lianxiangcloud/linkchain/state"
	"github.com/lianxiangcloud/linkchain/types"

	"verif/h/internal/core"
	"verif/h/internal/rng"
)

const (
	maxHostile     = 64 << 10 // hostile inputs are at most 64 KiB
	maxBase        = 48 << 10 // valid encodings used as mutation bases
	allocSlack     = 16 << 20 // additive term of the allocation bound
	valuesPerCase  = 10
	hostilePerCase = 34
)

func init() {
	core.Register(&core.Check{
		ID:        "C11",
		Level:     "exploration",
		Technique: "runtime monitoring of the real libs/ser encoder/decoder: type-directed random values over every registered type (round-trip, re-encode, map-order laws) and structure-aware hostile byte strings at every decoder entry point (panic capture, per-decode allocation counter)",
		Rule: "case = one destination type (case index mod number of targets: every registered concrete type, every registered interface, the listed container types) with " +
			"10 generated values (Part A: Decode(Encode(v)) succeeds at every entry point, equals v, re-encodes to the same bytes; an equal twin whose maps were filled in reverse order and every encoder entry point give the same bytes) and " +
			"34 hostile inputs <= 64 KiB (Part B: tree-level mutations of valid encodings, byte mutations, truncations, inflated sizes, random bytes; oracle: no panic, TotalAlloc delta <= A*len+16MiB(+2*explicit limit), a successfully decoded value re-encodes and obeys the round-trip law). " +
			"non-trivial = the case round-tripped >= 1 value containing a registered-interface value, a map or a nil pointer AND >= 1 hostile input was accepted or was rejected only after the decoder consumed >= half of it; distinct by hash(target, first encoding, first hostile input)",
		Assumptions: []string{
			"equal value = deep equality modulo nil-vs-empty slice/map, nil *big.Int vs 0, time instants, unexported cache fields (eq.go states the rules)",
			"values the encoder documents it cannot encode (negative big.Int, typed nil pointer inside an interface, nil map value) are skipped and counted",
			"acceptance of a non-canonical encoding by the decoder is counted, not judged (the property's canonical-form clause is about encoder output)",
			"allocation = runtime.MemStats.TotalAlloc delta around one decode in a child that runs nothing else; A = 16 x largest amplification measured on the case's own valid encodings",
			"children run with RLIMIT_AS = 6 GiB so that an unsatisfiable allocation is a prompt fatal error of the child, not a host problem",
		},
		Cases: func(tier string) int {
			// 98 destination types; quick gives each 40 cases, thorough 3000
			if tier == "thorough" {
				return 294000
			}
			return 3920
		},
		Run:              run,
		Floors:           floors,
		PanicIsViolation: true,
		Init:             initChild,
		// one P per child: the allocation counter is read around every decode and the
		// stop-the-world it needs is cheap when there is nothing else to stop
		ChildEnv: []string{"GOMAXPROCS=2"},
	})
}

// floors: about half of the minimum observed over seeds 1..5 (quick, unchanged and
// repaired tree); thorough runs 75 times as many cases (counts are linear in the number
// of cases: a 147000-case run met 37 x these values).
func floors(tier string) map[string]int64 {
	f := map[string]int64{
		"values_roundtripped":                            18000,
		"values_roundtripped_with_interfaces":            6500,
		"values_roundtripped_with_maps":                  120,
		"map_order_twins_compared":                       120,
		"roundtrips_ok":                                  70000,
		"encoder_entry_points_compared":                  11000,
		"values_refused_by_encoder":                      30,
		"hostile_inputs":                                 66000,
		"hostile_decodes":                                146000,
		"hostile_accepted":                               23000,
		"hostile_rejected":                               114000,
		"hostile_rejected_after_half_consumed":           12000,
		"decoded_values_roundtripped":                    23000,
		"reference_parse_ok":                             29000,
		"hostile_class:map-len":                          170,
		"hostile_class:prefix-swap":                      3800,
		"hostile_class:claim:huge":                       3600,
		"hostile_class:int-text":                         2600,
		"hostile_class:uint-bad":                         4200,
		"hostile_class:truncate":                         8000,
		"hostile_class:byte-mutation":                    13000,
		"hostile_class:nest-msginfo":                     80,
		"hostile_class:random":                           6500,
		"entry:DecodeBytes":                              49000,
		"entry:DecodeBytesWithType":                      26000,
		"entry:DecodeReader/bytes.Reader/limit=len":      15000,
		"entry:DecodeReader/chunked/limit=64KiB":         15000,
		"entry:DecodeReader/chunked/limit=1MiB":          15000,
		"entry:DecodeReaderWithType/chunked/limit=64KiB": 19000,
		"entry:consensus.decodeMsg":                      680,
		"entry:mempool.decodeMsg":                        680,
		"entry:blockchain.decodeMsg":                     680,
		"entry:evidence.decodeMsg":                       680,
		"entry:consensus.WALDecoder":                     680,
		"raw_inputs":                                     47000,
		"raw_accepted":                                   25000,
		"raw_rejected":                                   21000,
		"raw_class:forged-size":                          13000,
	}
	if tier == "thorough" {
		for k, v := range f {
			f[k] = v * 75
		}
	}
	f["sacrificial_decodes"] = 2
	f["max:targets_total"] = 98
	return f
}

// keyWithTarget: violation keys name the decode destination type as well as the
// panicking / allocating function (one root cause reachable from many destination
// types then yields one key per destination). Set to false for site-only keys.
const keyWithTarget = true

func vkey(family, target string, rest ...string) string {
	parts := []string{family}
	if keyWithTarget {
		parts = append(parts, target)
	}
	parts = append(parts, rest...)
	return strings.Join(parts, "/")
}

type target struct {
	name   string
	typ    reflect.Type
	kind   int // tConcrete, tIface, tPlain
	rc     *regConcrete
	ptrEnc bool // encode &v (struct kinds) rather than v
}

const (
	tConcrete = iota
	tIface
	tPlain
)

var shrunk = map[string]bool{}

var (
	initOnce sync.Once
	reg      *registry
	targets  []*target
	entries  []*entry
	initErr  string
)

func containerTypes() []reflect.Type {
	signdataT := reflect.TypeOf(types.ContractUpgradeTx{})
	var sd reflect.Type
	if f, ok := signdataT.FieldByName("Signatures"); ok {
		sd = f.Type.Elem().Elem() // types.signdata (decoded on its own in types/tx_cross.go)
	}
	ts := []reflect.Type{
		reflect.TypeOf(types.Block{}), reflect.TypeOf(types.Header{}), reflect.TypeOf(types.Data{}), reflect.TypeOf(types.Commit{}),
		reflect.TypeOf(types.Vote{}), reflect.TypeOf(types.Proposal{}), reflect.TypeOf(types.Heartbeat{}), reflect.TypeOf(types.Part{}),
		reflect.TypeOf(types.PartSetHeader{}), reflect.TypeOf(types.BlockID{}), reflect.TypeOf(types.BlockMeta{}), reflect.TypeOf(types.EvidenceData{}),
		reflect.TypeOf(types.ValidatorSet{}), reflect.TypeOf(types.Validator{}), reflect.TypeOf(types.TxsResult{}), reflect.TypeOf(types.Receipt{}),
		reflect.TypeOf(types.Receipts{}), reflect.TypeOf(types.ReceiptForStorage{}), reflect.TypeOf([]*types.ReceiptForStorage{}),
		reflect.TypeOf(types.Log{}), reflect.TypeOf(types.LogForStorage{}), reflect.TypeOf(types.ConsensusParams{}), reflect.TypeOf(types.Txs{}),
		reflect.TypeOf(types.EvidenceList{}), reflect.TypeOf(types.BlockBalanceRecords{}), reflect.TypeOf(types.UTXOOutputData{}),
		reflect.TypeOf(consensus.NewStatus{}), reflect.TypeOf(consensus.ValidatorsInfo{}), reflect.TypeOf(consensus.ConsensusParamsInfo{}),
		reflect.TypeOf(consensus.TimedWALMessage{}), reflect.TypeOf(state.Account{}), reflect.TypeOf(evidence.EvidenceInfo{}),
		reflect.TypeOf(common.BitArray{}),
	}
	if sd != nil {
		ts = append(ts, sd)
	}
	return ts
}

func initChild() {
	initOnce.Do(func() {
		core.QuietLogs()
		// An allocation the machine cannot satisfy must end the child promptly.
		lim := syscall.Rlimit{Cur: 6 << 30, Max: 6 << 30}
		syscall.Setrlimit(syscall.RLIMIT_AS, &lim)
		reg = loadRegistry()
		entries = buildEntries()
		for _, rc := range reg.concrete {
			targets = append(targets, &target{name: rc.Type.String(), typ: rc.Type, kind: tConcrete, rc: rc, ptrEnc: rc.PointerPreferred || rc.Type.Kind() == reflect.Struct})
		}
		for _, ri := range reg.ifaces {
			targets = append(targets, &target{name: ri.Type.String(), typ: ri.Type, kind: tIface})
		}
		for _, t := range containerTypes() {
			if reg.byType[t] != nil {
				continue
			}
			targets = append(targets, &target{name: t.String(), typ: t, kind: tPlain, ptrEnc: t.Kind() == reflect.Struct})
		}
		if len(reg.concrete) < 40 || len(reg.ifaces) < 10 {
			initErr = fmt.Sprintf("registry looks wrong: %d concrete, %d interfaces", len(reg.concrete), len(reg.ifaces))
		}
		if spec := os.Getenv(sacrificeEnv); spec != "" {
			runSacrifice(spec)
			os.Exit(0)
		}
	})
}

// encodable returns the Go value handed to the encoder for v (addressable, of the target's type).
func (tg *target) encodable(v reflect.Value) (interface{}, bool) {
	if tg.kind == tIface {
		if v.IsNil() {
			return nil, false
		}
		return v.Elem().Interface(), true
	}
	if tg.ptrEnc {
		return v.Addr().Interface(), true
	}
	return v.Interface(), true
}

// typedForm: whether the "WithType" encoding of this target differs from the plain one.
func (tg *target) hasTyped() bool { return tg.kind == tConcrete || tg.kind == tIface }

func (tg *target) encode(v reflect.Value, typed bool) ([]byte, error) {
	x, ok := tg.encodable(v)
	if !ok {
		return nil, fmt.Errorf("nil top-level interface")
	}
	if typed || tg.kind == tIface {
		return ser.EncodeToBytesWithType(x)
	}
	return ser.EncodeToBytes(x)
}

func (tg *target) applicable(e *entry, typedForm bool) bool {
	if e.only != nil {
		return e.only == tg.typ && (tg.kind != tIface || true)
	}
	if tg.kind == tIface {
		return true // prefix is read by the interface decoder itself; WithType consumes nothing for interface destinations
	}
	return e.typed == typedForm
}

type caseState struct {
	c      *core.Ctx
	tg     *target
	seen   map[string]bool
	ampA   float64
	c0     uint64
	haveC0 bool
}

func (cs *caseState) violation(key, detail string, w interface{}) {
	if cs.seen[key] {
		return
	}
	cs.seen[key] = true
	cs.c.Violation(key, detail, w)
}

func hexw(b []byte) string {
	if len(b) > 1500 {
		return fmt.Sprintf("%s...(%d bytes, sha256 %x)", hex.EncodeToString(b[:1500]), len(b), sha256.Sum256(b))
	}
	return hex.EncodeToString(b)
}

type validEnc struct {
	enc   []byte
	typed bool
	val   reflect.Value
	rich  bool
}

func run(c *core.Ctx) {
	initChild()
	if initErr != "" {
		c.Inconclusive(initErr)
		return
	}
	r := c.Rng
	tg := targets[c.Index%len(targets)]
	cs := &caseState{c: c, tg: tg, seen: map[string]bool{}}
	c.Max("targets_total", int64(len(targets)))
	c.Max("registered_concrete_types", int64(len(reg.concrete)))
	c.Max("registered_interfaces", int64(len(reg.ifaces)))
	c.Logf("target %s (kind %d)", tg.name, tg.kind)

	// warm-up (not measured, not judged): the first use of a type builds its cached
	// encoder/decoder, which would otherwise be charged to the first calibration decode
	if wv := newGen(rng.New(1), reg, 4, false, false).value(tg.typ); !(tg.kind == tIface && wv.IsNil()) {
		for _, typed := range []bool{false, true} {
			if enc, err, pan, _, _ := guardEncode(func() ([]byte, error) { return tg.encode(wv, typed) }); err == nil && !pan {
				for _, e := range entries {
					if tg.applicable(e, typed) {
						guard(func() (reflect.Value, int64, error) { return e.call(tg.typ, enc) })
					}
				}
			}
		}
	}

	var valids []validEnc
	richRoundTrip := false
	for i := 0; i < valuesPerCase; i++ {
		ve, ok := cs.partA(r)
		if c.Verbose && ok {
			c.Logf("value %d: %d bytes typed=%v", i, len(ve.enc), ve.typed)
		}
		if ok {
			valids = append(valids, ve)
			if ve.rich {
				richRoundTrip = true
			}
		}
	}
	// amplification bound from this case's own valid encodings
	A := 16.0
	if cs.ampA > 1 {
		A = 16 * cs.ampA
	}
	c.Max("alloc_bound_factor_A", int64(A))

	// the two decodes whose failure mode is a fatal runtime error: once per run, in a sacrificial process
	if c.Index < len(targets) {
		switch tg.name {
		case "blockchain.BlockchainMessage":
			cs.sacrifice("nest-blockchain:1100000", "blockchain.decodeMsg given 1.1M nested consensus.msgInfo values (about 13 MB, the reactor admits 100 MiB)")
		case "state.Account":
			cs.sacrifice("maplen-account:4000000000", "ser.DecodeBytes into state.Account of an encoding whose token map claims 2^38 entries")
		}
	}

	deep := false
	var firstHostile []byte
	for i := 0; i < hostilePerCase; i++ {
		b, classes, typed := cs.hostile(r, valids)
		if len(b) > maxHostile {
			b = b[:maxHostile]
		}
		if firstHostile == nil {
			firstHostile = b
		}
		if cs.partB(r, b, classes, typed, A) {
			deep = true
		}
	}
	cs.rawLane(r.Split(), valids)
	if richRoundTrip && deep {
		h := sha256.New()
		h.Write([]byte(tg.name))
		if len(valids) > 0 {
			h.Write(valids[0].enc)
		}
		h.Write(firstHostile)
		c.Nontrivial(hex.EncodeToString(h.Sum(nil)[:8]))
	}
	if c.Index%97 == 0 && len(valids) > 0 {
		c.Sample(map[string]interface{}{"target": tg.name, "first_valid_encoding": hexw(valids[0].enc), "first_hostile_input": hexw(firstHostile)})
	}
}

// ---------------------------------------------------------------- Part A

func (cs *caseState) partA(r *rng.R) (validEnc, bool) {
	c, tg := cs.c, cs.tg
	seed := r.Uint64()
	budget := []int{4, 12, 30, 60, 120}[r.Intn(5)]
	evil := r.Chance(0.15)
	g1 := newGen(rng.New(seed), reg, budget, false, evil)
	g2 := newGen(rng.New(seed), reg, budget, true, evil)
	v1, v2 := g1.value(tg.typ), g2.value(tg.typ)
	if tg.kind == tIface && (v1.IsNil() || (v1.Elem().Kind() == reflect.Ptr && v1.Elem().IsNil())) {
		// the node never sends a nil message; a typed nil pointer inside an interface is
		// outside the encoder's domain (cdc.go "MARKER: No interface-pointers")
		c.Count("values_nil_toplevel_interface", 1)
		return validEnc{}, false
	}
	c.Count("values_generated", 1)
	if g1.err != "" {
		c.Inconclusive("generator: " + g1.err)
		return validEnc{}, false
	}
	if d := eqValue(v1, v2, "v"); d != "" {
		c.Inconclusive("harness: twin values differ: " + d)
		return validEnc{}, false
	}
	st := g1.st
	c.Count("gen_interface_values", int64(st.Ifaces))
	c.Count("gen_nil_interfaces", int64(st.NilIfaces))
	c.Count("gen_nil_pointers", int64(st.NilPtrs))
	c.Count("gen_map_entries", int64(st.MapEntries))
	c.Count("gen_negative_ints", int64(st.NegInts))
	c.Count("gen_big_ints", int64(st.BigInts))
	c.Count("gen_times", int64(st.Times))

	typed := tg.hasTyped() && r.Bool()
	enc, err, pan, pmsg, pfunc := guardEncode(func() ([]byte, error) { return tg.encode(v1, typed) })
	if pan || err != nil {
		if st.Refusable != "" {
			c.Count("values_refused_by_encoder", 1)
			c.Count("values_refused:"+strings.Replace(st.Refusable, " ", "_", -1), 1)
			return validEnc{}, false
		}
		if pan {
			cs.violation(vkey("encode-panic", tg.name, pfunc, panicClass(pmsg)), "encoder panicked on a generated value: "+pmsg,
				map[string]interface{}{"target": tg.name, "value": fmt.Sprintf("%+v", v1.Interface()), "seed": seed})
		} else {
			cs.violation("encode-error/"+tg.name, "encoder refused a generated value with no documented reason: "+err.Error(),
				map[string]interface{}{"target": tg.name, "value": fmt.Sprintf("%+v", v1.Interface()), "seed": seed})
		}
		return validEnc{}, false
	}
	c.Count("values_encoded", 1)
	c.Max("valid_encoding_bytes", int64(len(enc)))

	// equal values, same bytes: twin with reversed map insertion order, repeated encodes, every encoder entry point
	enc2, err2, pan2, _, _ := guardEncode(func() ([]byte, error) { return tg.encode(v2, typed) })
	if pan2 || err2 != nil || !bytes.Equal(enc, enc2) {
		key := "equal-values-differ/" + tg.name
		if st.MapEntries >= 2 {
			key = "map-order/" + tg.name
		}
		cs.violation(key, fmt.Sprintf("two equal values (maps filled in opposite orders) encode differently (err=%v panic=%v)", err2, pan2),
			map[string]interface{}{"target": tg.name, "enc1": hexw(enc), "enc2": hexw(enc2), "seed": seed})
	}
	if st.MapEntries >= 2 {
		c.Count("map_order_twins_compared", 1)
		for k := 0; k < 3; k++ {
			e3, _ := tg.encode(v1, typed)
			if !bytes.Equal(enc, e3) {
				cs.violation("map-order/"+tg.name, "the same value encodes differently on repeated calls", map[string]interface{}{"target": tg.name, "enc1": hexw(enc), "enc2": hexw(e3), "seed": seed})
			}
		}
	}
	if x, ok := tg.encodable(v1); ok && !typed && tg.kind != tIface {
		var w bytes.Buffer
		if err := ser.Encode(&w, x); err != nil || !bytes.Equal(w.Bytes(), enc) {
			cs.violation("encoder-entry-points-differ/"+tg.name+"/Encode", fmt.Sprintf("Encode(w) != EncodeToBytes (err=%v)", err), map[string]interface{}{"enc": hexw(enc), "other": hexw(w.Bytes())})
		}
		if _, rd, err := ser.EncodeToReader(x); err == nil {
			rb, _ := ioutil.ReadAll(rd)
			if !bytes.Equal(rb, enc) {
				cs.violation("encoder-entry-points-differ/"+tg.name+"/EncodeToReader", "EncodeToReader != EncodeToBytes", map[string]interface{}{"enc": hexw(enc), "other": hexw(rb)})
			}
		}
		c.Count("encoder_entry_points_compared", 1)
	}

	// decode at every applicable entry point
	okAll := true
	for _, e := range entries {
		if !tg.applicable(e, typed) {
			continue
		}
		if e.limit > 0 && int64(len(enc)) > e.limit {
			continue
		}
		if strings.HasSuffix(e.name, "decodeMsg") || e.name == "consensus.WALDecoder" {
			if len(enc) > 1<<20 {
				continue
			}
		}
		o := measured(func() (reflect.Value, int64, error) { return e.call(tg.typ, enc) })
		c.Count("roundtrip_decodes", 1)
		if o.panicked {
			okAll = false
			cs.violation(vkey("decode-panic", tg.name, o.pfunc, panicClass(o.pmsg)), "decoder panicked on a VALID encoding at "+e.name+": "+o.pmsg,
				map[string]interface{}{"target": tg.name, "entry": e.name, "input": hexw(enc), "stack": o.pstack})
			continue
		}
		if o.err != nil {
			okAll = false
			cs.violation("roundtrip/decode-error/"+tg.name, fmt.Sprintf("%s rejects the encoder's own output: %v", e.name, o.err),
				map[string]interface{}{"target": tg.name, "entry": e.name, "input": hexw(enc), "value": fmt.Sprintf("%+v", v1.Interface())})
			continue
		}
		if d := eqValue(v1, o.val, "v"); d != "" {
			okAll = false
			cs.violation("roundtrip/value-differs/"+tg.name, fmt.Sprintf("%s: decoded value differs at %s", e.name, d),
				map[string]interface{}{"target": tg.name, "entry": e.name, "input": hexw(enc), "diff": d})
			continue
		}
		re, rerr, rpan, rmsg, _ := guardEncode(func() ([]byte, error) { return tg.encode(o.val, typed) })
		if rpan || rerr != nil || !bytes.Equal(re, enc) {
			okAll = false
			cs.violation("roundtrip/reencode-differs/"+tg.name, fmt.Sprintf("%s: re-encoding the decoded value gives other bytes (err=%v panic=%v %s)", e.name, rerr, rpan, rmsg),
				map[string]interface{}{"target": tg.name, "entry": e.name, "input": hexw(enc), "reencoded": hexw(re)})
			continue
		}
		c.Count("roundtrips_ok", 1)
		// calibration of the allocation bound (valid encodings only)
		if e.name == "DecodeBytes" || e.name == "DecodeBytesWithType" {
			if !cs.haveC0 || o.alloc < cs.c0 {
				cs.c0, cs.haveC0 = o.alloc, true
			}
			if len(enc) >= 64 && o.alloc > cs.c0 {
				if a := float64(o.alloc-cs.c0) / float64(len(enc)); a > cs.ampA {
					cs.ampA = a
				}
			}
			c.Max("valid_alloc_per_input_byte_x10", int64(10*float64(o.alloc)/float64(len(enc)+1)))
		}
	}
	rich := okAll && (st.Ifaces > 0 || st.MapEntries > 0 || st.NilPtrs > 0 || st.NilIfaces > 0)
	if okAll {
		c.Count("values_roundtripped", 1)
		if st.Ifaces > 0 {
			c.Count("values_roundtripped_with_interfaces", 1)
		}
		if st.MapEntries >= 2 {
			c.Count("values_roundtripped_with_maps", 1)
		}
	}
	return validEnc{enc: enc, typed: typed, val: v1, rich: rich}, true
}

// ---------------------------------------------------------------- Part B

func randomBytes(r *rng.R) []byte {
	switch x := r.Intn(10); {
	case x < 4:
		return r.Bytes(r.Range(0, 16))
	case x < 8:
		return r.Bytes(r.Range(17, 300))
	case x < 9:
		return r.Bytes(r.Range(300, 5000))
	default:
		return r.Bytes(r.Range(5000, maxHostile))
	}
}

func listFrame(payload []byte) []byte {
	return append(putHeader(nil, 0xc0, uint64(len(payload)), 0), payload...)
}

// hostile builds one hostile input; typed tells which entry family it is aimed at.
func (cs *caseState) hostile(r *rng.R, valids []validEnc) (b []byte, classes []string, typed bool) {
	tg := cs.tg
	var base *validEnc
	var cands []int
	for i := range valids {
		if len(valids[i].enc) <= maxBase {
			cands = append(cands, i)
		}
	}
	if len(cands) > 0 {
		base = &valids[cands[r.Intn(len(cands))]]
		typed = base.typed
	} else {
		typed = tg.hasTyped() && r.Bool()
	}
	prefix := func() []byte {
		if tg.kind == tConcrete && typed {
			return append([]byte{}, tg.rc.Disfix[:]...)
		}
		if tg.kind == tIface {
			if ri := reg.iface[tg.typ]; ri != nil && len(ri.Impl) > 0 {
				rc := ri.pick(r)
				return append([]byte{}, rc.Disfix[:]...)
			}
		}
		return nil
	}
	x := r.Intn(100)
	switch {
	case base != nil && x < 45: // tree-level mutation
		root, err := parseEncoding(reg, base.enc, tg.typ, base.typed && tg.kind == tConcrete)
		if err != nil {
			cs.c.Count("reference_parse_failed", 1)
			break
		}
		cs.c.Count("reference_parse_ok", 1)
		if out := root.serialize(nil); !bytes.Equal(out, base.enc) {
			cs.c.Inconclusive("harness: reference parse/serialise is not the identity on a valid encoding of " + tg.name)
			break
		}
		// targeted: a claimed map size, when the encoding has one
		hasMap := false
		root.walk(func(n, _ *node) {
			if n.sem == semMapLen {
				hasMap = true
			}
		}, nil)
		if hasMap && r.Chance(0.5) {
			var nodes []*node
			root.walk(func(n, _ *node) {
				if n.sem == semMapLen {
					nodes = append(nodes, n)
				}
			}, nil)
			n := nodes[r.Intn(len(nodes))]
			s, cls := hostileMapLen(r)
			n.data = []byte(s)
			classes = append(classes, "map-len:"+cls)
			if r.Bool() {
				return root.serialize(nil), classes, typed
			}
		}
		classes = append(classes, mutateTree(r, reg, root, r.Range(1, 3))...)
		b = root.serialize(nil)
		if innerConcreteInvalid(root, classes) {
			classes = append(classes, "~inner-concrete-invalid")
		}
		if r.Chance(0.1) && len(b) > 1 {
			b = b[:r.Range(1, len(b)-1)]
			classes = append(classes, "truncate")
		}
		return b, classes, typed
	case base != nil && x < 65: // 1-3 byte mutations
		b = append([]byte{}, base.enc...)
		if len(b) == 0 {
			break
		}
		k := r.Range(1, 3)
		for i := 0; i < k; i++ {
			p := r.Intn(len(b))
			if r.Chance(0.6) { // bias to the front where the headers are
				p = r.Intn(1 + len(b)/4)
			}
			switch r.Intn(4) {
			case 0:
				b[p] ^= 1 << uint(r.Intn(8))
			case 1:
				b[p] = byte(r.Intn(256))
			case 2:
				b[p]++
			default:
				b[p] = []byte{0x00, 0x7f, 0x80, 0x81, 0xb7, 0xb8, 0xbf, 0xc0, 0xc1, 0xf7, 0xf8, 0xff}[r.Intn(12)]
			}
		}
		return b, []string{"byte-mutation"}, typed
	case base != nil && x < 73: // truncation
		if len(base.enc) < 2 {
			break
		}
		return append([]byte{}, base.enc[:r.Range(0, len(base.enc)-1)]...), []string{"truncate"}, typed
	case base != nil && x < 78: // insert / delete / append
		b = append([]byte{}, base.enc...)
		switch r.Intn(3) {
		case 0:
			b = append(b, r.Bytes(r.Range(1, 40))...)
		case 1:
			p := r.Intn(len(b) + 1)
			b = append(b[:p], append(r.Bytes(r.Range(1, 8)), b[p:]...)...)
		default:
			if len(b) > 2 {
				p := r.Intn(len(b) - 1)
				q := p + r.Range(1, 8)
				if q > len(b) {
					q = len(b)
				}
				b = append(b[:p], b[q:]...)
			}
		}
		return b, []string{"insert-delete"}, typed
	case x < 83: // a header claiming a huge size in front of little data
		tag := byte(0xf7)
		if r.Chance(0.3) {
			tag = 0xb7
		}
		n := r.Range(1, 8)
		size := hugeSizes[r.Intn(len(hugeSizes))]
		var buf [8]byte
		for i := 0; i < 8; i++ {
			buf[i] = byte(size >> uint(56-8*i))
		}
		b = append(prefix(), tag+byte(n))
		b = append(b, buf[8-n:]...)
		b = append(b, r.Bytes(r.Range(0, 64))...)
		return b, []string{"toplevel-claim"}, typed
	case x < 90: // prefix / list frame around random bytes
		body := randomBytes(r)
		if len(body) > 2000 {
			body = body[:2000]
		}
		if r.Bool() {
			body = listFrame(body)
		}
		return append(prefix(), body...), []string{"framed-random"}, typed
	case x < 94 && tg.kind == tIface && tg.typ.NumMethod() == 0 && base != nil: // recursion through msgInfo
		depth := []int{3, 40, 400, 5000}[r.Intn(4)]
		inner := base.enc
		if len(inner) > 2000 {
			break
		}
		b = nestMsgInfo(reg, inner, depth)
		if b != nil && len(b) <= maxHostile {
			cls := "nest-msginfo"
			if r.Chance(0.3) && len(b) > 10 {
				b[len(b)-1-r.Intn(len(b)/2)] ^= 0x40
				cls = "nest-msginfo+flip"
			}
			return b, []string{cls}, typed
		}
	}
	return randomBytes(r), []string{"random"}, typed
}

// partB feeds one hostile input to the entry points; returns whether the decoder got deep into it.
func (cs *caseState) partB(r *rng.R, b []byte, classes []string, typed bool, A float64) (deep bool) {
	c, tg := cs.c, cs.tg
	c.Count("hostile_inputs", 1)
	for _, cl := range classes {
		if strings.HasPrefix(cl, "~") {
			c.Count("s8_inputs_with_invalid_concrete_value_inside_interface", 1)
			continue
		}
		if i := strings.Index(cl, ":"); i > 0 {
			c.Count("hostile_class:"+cl[:i], 1)
			if strings.HasPrefix(cl, "map-len") || strings.HasPrefix(cl, "prefix-swap") || strings.HasPrefix(cl, "claim") {
				c.Count("hostile_class:"+cl, 1)
			}
		} else {
			c.Count("hostile_class:"+cl, 1)
		}
	}
	c.Max("hostile_input_bytes", int64(len(b)))
	// entry points: the bytes-level one of the family, the special wrappers, and one random reader variant
	var use []*entry
	var readers []*entry
	for _, e := range entries {
		if !tg.applicable(e, typed) {
			continue
		}
		if e.only != nil || e.name == "DecodeBytes" || e.name == "DecodeBytesWithType" {
			use = append(use, e)
		} else {
			readers = append(readers, e)
		}
	}
	if len(readers) > 0 {
		use = append(use, readers[r.Intn(len(readers))])
	}
	for _, e := range use {
		o := measured(func() (reflect.Value, int64, error) { return e.call(tg.typ, b) })
		c.Count("hostile_decodes", 1)
		c.Count("entry:"+e.name, 1)
		c.Max("hostile_alloc_bytes", int64(o.alloc))
		if o.panicked {
			c.Count("decode_panics_observed", 1)
			key := vkey("decode-panic", tg.name, o.pfunc, panicClass(o.pmsg))
			if !cs.seen[key] {
				pf, pc := o.pfunc, panicClass(o.pmsg)
				min := b
				if !shrunk[key] { // minimise once per process and key (witness quality only, never the verdict)
					shrunk[key] = true
					min = shrink(b, 150, func(x []byte) bool {
						oo := guard(func() (reflect.Value, int64, error) { return e.call(tg.typ, x) })
						return oo.panicked && oo.pfunc == pf && panicClass(oo.pmsg) == pc
					})
				}
				cs.violation(key, fmt.Sprintf("%s(%d hostile bytes -> %s) panicked: %s", e.name, len(b), tg.name, o.pmsg),
					map[string]interface{}{"target": tg.name, "entry": e.name, "classes": classes, "input": hexw(b), "minimised_input": hexw(min), "panic": o.pmsg, "stack": o.pstack})
			}
			continue
		}
		bound := A*float64(len(b)) + allocSlack + 2*float64(e.limit)
		if float64(o.alloc) > bound {
			c.Count("alloc_alarms_observed", 1)
			site := allocSite(func() { guard(func() (reflect.Value, int64, error) { return e.call(tg.typ, b) }) })
			key := vkey("alloc-unbounded", tg.name, site)
			if !cs.seen[key] {
				min := b
				if !shrunk[key] {
					shrunk[key] = true
					min = shrink(b, 24, func(x []byte) bool {
						oo := measured(func() (reflect.Value, int64, error) { return e.call(tg.typ, x) })
						return !oo.panicked && float64(oo.alloc) > A*float64(len(x))+allocSlack+2*float64(e.limit)
					})
				}
				cs.violation(key, fmt.Sprintf("%s allocated %d bytes while decoding %d input bytes into %s (bound %.0f = %.0f*len+16MiB+2*limit)", e.name, o.alloc, len(b), tg.name, bound, A),
					map[string]interface{}{"target": tg.name, "entry": e.name, "classes": classes, "input": hexw(b), "minimised_input": hexw(min), "allocated": o.alloc, "site": site, "decode_error": fmt.Sprint(o.err)})
			}
		}
		if o.consumed >= 0 && o.err != nil && int(o.consumed)*2 >= len(b) && len(b) >= 8 {
			deep = true
			c.Count("hostile_rejected_after_half_consumed", 1)
		}
		if o.err != nil {
			c.Count("hostile_rejected", 1)
			continue
		}
		deep = true
		c.Count("hostile_accepted", 1)
		cs.afterAccept(e, b, o.val, typed, classes)
	}
	return deep
}

// afterAccept: a value the decoder returned for hostile bytes is a value of the type:
// it must be encodable without a crash and obey the round-trip law itself.
func (cs *caseState) afterAccept(e *entry, b []byte, v reflect.Value, typed bool, classes []string) {
	c, tg := cs.c, cs.tg
	if tg.kind == tIface && v.IsNil() {
		c.Count("hostile_accepted_as_nil_interface", 1)
		return
	}
	w := func() map[string]interface{} {
		return map[string]interface{}{"target": tg.name, "entry": e.name, "classes": classes, "input": hexw(b)}
	}
	re, err, pan, pmsg, pfunc := guardEncode(func() ([]byte, error) { return tg.encode(v, typed) })
	if pan {
		cs.violation(vkey("encode-panic", tg.name, pfunc, panicClass(pmsg)), "the value the decoder returned for hostile bytes makes the encoder panic: "+pmsg, w())
		return
	}
	if err != nil {
		c.Count("hostile_accepted_value_not_encodable", 1)
		return
	}
	for _, cl := range classes {
		if cl == "~inner-concrete-invalid" {
			// DESIGN §6-S8 by execution: the concrete decoder rejects the value inside the interface
			// (checked stand-alone), decodeCDCInterface drops that error, the whole decode succeeds.
			c.Count("s8_inner_error_swallowed_and_input_accepted", 1)
			c.Logf("S8: %s accepted %x as %+v", e.name, b, v.Interface())
		}
	}
	if !bytes.Equal(re, b) {
		c.Count("hostile_accepted_noncanonical", 1) // diagnostic: the decoder accepted bytes the encoder would not produce
		for _, cl := range classes {
			if strings.HasPrefix(cl, "truncate") || strings.HasPrefix(cl, "claim") || strings.HasPrefix(cl, "bytes-len") {
				c.Count("hostile_accepted_noncanonical_after_structural_damage", 1)
				break
			}
		}
	} else {
		c.Count("hostile_accepted_canonical", 1)
	}
	entryT := entries[0]
	if typed || tg.kind == tIface {
		entryT = entries[1]
	}
	o := guard(func() (reflect.Value, int64, error) { return entryT.call(tg.typ, re) })
	switch {
	case o.panicked:
		cs.violation(vkey("decode-panic", tg.name, o.pfunc, panicClass(o.pmsg)), "decoder panicked on the re-encoding of a decoded value: "+o.pmsg, w())
	case o.err != nil:
		cs.violation("roundtrip-of-decoded-value/decode-error/"+tg.name, "Encode(v) of a value v returned by the decoder is rejected by the decoder: "+o.err.Error(),
			map[string]interface{}{"target": tg.name, "hostile_input": hexw(b), "encoding_of_decoded_value": hexw(re)})
	default:
		if d := eqValue(v, o.val, "v"); d != "" {
			cs.violation("roundtrip-of-decoded-value/value-differs/"+tg.name, "Decode(Encode(v)) != v for a value v returned by the decoder: "+d,
				map[string]interface{}{"target": tg.name, "hostile_input": hexw(b), "encoding_of_decoded_value": hexw(re), "diff": d})
			return
		}
		re2, err2 := tg.encode(o.val, typed)
		if err2 != nil || !bytes.Equal(re2, re) {
			cs.violation("roundtrip-of-decoded-value/reencode-differs/"+tg.name, "Encode(Decode(Encode(v))) != Encode(v) for a value v returned by the decoder",
				map[string]interface{}{"target": tg.name, "hostile_input": hexw(b), "enc1": hexw(re), "enc2": hexw(re2)})
			return
		}
		c.Count("decoded_values_roundtripped", 1)
	}
}

// innerConcreteInvalid: the tree (after leaf-level mutations only, so that all sizes are
// still consistent) contains an interface slot whose prefix names a registered type and
// whose body that type's own decoder rejects when given the body alone.
func innerConcreteInvalid(root *node, classes []string) bool {
	for _, cl := range classes {
		base := cl
		if i := strings.Index(cl, ":"); i > 0 {
			base = cl[:i]
		}
		switch base {
		case "int-text", "uint-bad", "bool-bad", "big-bad", "flip-tag":
		default:
			return false
		}
	}
	bad := false
	root.walk(func(n, _ *node) {
		if bad || n.kind != nSeq || n.typ == nil || len(n.kids) != 2 || n.kids[0].sem != semPrefix || len(n.kids[0].data) != 7 {
			return
		}
		var df [7]byte
		copy(df[:], n.kids[0].data)
		rc := reg.byDisfix[df]
		if rc == nil {
			return
		}
		body := n.kids[1].serialize(nil)
		o := guard(func() (reflect.Value, int64, error) {
			p := reflect.New(rc.Type)
			return p.Elem(), -1, ser.DecodeBytes(body, p.Interface())
		})
		if !o.panicked && o.err != nil {
			bad = true
		}
	}, nil)
	return bad
}

// shrink greedily removes chunks / zeroes bytes of b while pred keeps holding (at most tries evaluations).
func shrink(b []byte, tries int, pred func([]byte) bool) []byte {
	cur := append([]byte{}, b...)
	n := 0
	for chunk := len(cur) / 2; chunk >= 1 && n < tries; chunk /= 2 {
		for i := 0; i+chunk <= len(cur) && n < tries; {
			cand := append(append([]byte{}, cur[:i]...), cur[i+chunk:]...)
			n++
			if pred(cand) {
				cur = cand
			} else {
				i += chunk
			}
		}
	}
	return cur
}
