package c11

import (
	"fmt"
	"math/big"
	"reflect"
	"strings"
	"sync/atomic"
	"time"
	"unsafe"

	"github.com/lianxiangcloud/linkchain/libs/ser"

	"verif/h/internal/rng"
)

var (
	encIface     = reflect.TypeOf(new(ser.Encoder)).Elem()
	decIface     = reflect.TypeOf(new(ser.Decoder)).Elem()
	timeType     = reflect.TypeOf(time.Time{})
	bigIntType   = reflect.TypeOf(big.Int{})
	bigIntPtr    = reflect.TypeOf((*big.Int)(nil))
	atomicValue  = reflect.TypeOf(atomic.Value{})
	rawValueType = reflect.TypeOf(ser.RawValue{})
)

// Types with a hand-written EncodeSER that writes only a subset of the
// exported fields (documented on the type: the other fields are derived data
// "not secured by consensus"). The generator leaves the other fields zero so
// that the value is one the encoding is documented to carry.
var encodedSubset = map[string][]string{
	"types.Log": {"Address", "Topics", "Data"},
}

func hasCustomCodec(t reflect.Type) bool {
	if t.Kind() == reflect.Ptr {
		t = t.Elem()
	}
	pt := reflect.PtrTo(t)
	return pt.Implements(encIface) || pt.Implements(decIface)
}

func rlpIgnored(f reflect.StructField) bool {
	for _, t := range strings.Split(f.Tag.Get("rlp"), ",") {
		if strings.TrimSpace(t) == "-" {
			return true
		}
	}
	return false
}

func exportedFieldCount(t reflect.Type) int {
	n := 0
	for i := 0; i < t.NumField(); i++ {
		if t.Field(i).PkgPath == "" {
			n++
		}
	}
	return n
}

// payloadFields: for a struct with a custom codec and no exported field, the
// unexported struct-typed fields that carry the encoded content (e.g.
// types.Transaction.data); caches (atomic.Value) are excluded.
func payloadFields(t reflect.Type) []int {
	if t.Kind() != reflect.Struct || !hasCustomCodec(t) || exportedFieldCount(t) > 0 {
		return nil
	}
	var out []int
	for i := 0; i < t.NumField(); i++ {
		ft := t.Field(i).Type
		if ft.Kind() == reflect.Struct && ft != atomicValue && exportedFieldCount(ft) > 0 {
			out = append(out, i)
		}
	}
	return out
}

// settable returns a settable view of field i of the addressable struct v (also for unexported fields).
func settable(v reflect.Value, i int) reflect.Value {
	f := v.Field(i)
	if f.CanSet() {
		return f
	}
	return reflect.NewAt(f.Type(), unsafe.Pointer(f.UnsafeAddr())).Elem()
}

type genStats struct {
	Ifaces, NilIfaces, NilPtrs, Maps, MapEntries, NegInts, BigInts, Times, Nodes int
	Refusable                                                                    string // non-empty: the value contains something the encoder documents it cannot encode
}

type gen struct {
	r      *rng.R
	reg    *registry
	budget int
	rev    bool // insert map entries in reverse order
	evil   bool // allow values the encoder refuses (negative big ints, typed nil in interface, nil map value)
	st     genStats
	err    string // harness problem (unsupported kind reached)
}

func newGen(r *rng.R, reg *registry, budget int, rev, evil bool) *gen {
	return &gen{r: r, reg: reg, budget: budget, rev: rev, evil: evil}
}

var edgeU = []uint64{0, 1, 2, 15, 16, 55, 56, 127, 128, 255, 256, 1<<16 - 1, 1 << 16, 1<<31 - 1, 1 << 31, 1<<32 - 1, 1 << 32, 1<<63 - 1, 1 << 63, 1<<64 - 1}

func (g *gen) uintN(bits int) uint64 {
	var v uint64
	switch g.r.Intn(4) {
	case 0:
		v = edgeU[g.r.Intn(len(edgeU))]
	case 1:
		v = uint64(g.r.Intn(300))
	default:
		v = g.r.Uint64() >> uint(g.r.Intn(64))
	}
	if bits < 64 {
		v &= (1 << uint(bits)) - 1
	}
	return v
}

func (g *gen) intN(bits int) int64 {
	u := g.uintN(64)
	v := int64(u)
	if g.r.Chance(0.3) {
		v = -v
	}
	if g.r.Chance(0.05) {
		v = -1 << 63
	}
	// wrap into range
	if bits < 64 {
		sh := uint(64 - bits)
		v = (v << sh) >> sh
	}
	if v < 0 {
		g.st.NegInts++
	}
	return v
}

func (g *gen) byteLen() int {
	switch g.r.Intn(10) {
	case 0, 1:
		return 0
	case 2, 3:
		return 1
	case 4, 5:
		return g.r.Range(2, 40)
	case 6:
		return g.r.Range(54, 58)
	case 7:
		return g.r.Range(59, 300)
	case 8:
		return g.r.Range(250, 260)
	default:
		return g.r.Range(2, 20)
	}
}

func (g *gen) bytes(n int) []byte {
	b := g.r.Bytes(n)
	switch g.r.Intn(6) {
	case 0:
		for i := range b {
			b[i] = 0
		}
	case 1:
		for i := range b {
			b[i] &= 0x7f
		}
	case 2:
		if n > 0 {
			b[0] = 0
		}
	}
	return b
}

func (g *gen) bigInt() *big.Int {
	g.st.BigInts++
	var x *big.Int
	switch g.r.Intn(6) {
	case 0:
		x = new(big.Int)
	case 1:
		x = big.NewInt(int64(g.r.Intn(200)))
	case 2:
		x = new(big.Int).SetUint64(g.r.Uint64())
	case 3:
		x = new(big.Int).SetBytes(g.r.Bytes(32))
	case 4:
		x = new(big.Int).SetBytes(g.r.Bytes(g.r.Range(1, 80)))
	default:
		x = new(big.Int).Lsh(big.NewInt(1), uint(g.r.Intn(300)))
	}
	if g.evil && g.r.Chance(0.02) && x.Sign() > 0 {
		x.Neg(x)
		g.st.Refusable = "negative big.Int"
	}
	return x
}

func (g *gen) time() time.Time {
	g.st.Times++
	switch g.r.Intn(8) {
	case 0:
		return time.Time{}
	case 1:
		return time.Unix(0, 0)
	case 2:
		return time.Unix(int64(g.r.Intn(2000000000)), int64(g.r.Intn(1000000000))).In(time.FixedZone("x", 3600*(g.r.Intn(24)-12)))
	case 3:
		return time.Unix(-int64(g.r.Intn(2000000000)), int64(g.r.Intn(1000000000)))
	case 4:
		return time.Unix(int64(g.r.Uint64()>>uint(2+g.r.Intn(40))), 999999999)
	case 5:
		return time.Unix(-int64(g.r.Uint64()>>uint(6+g.r.Intn(40))), 0)
	default:
		return time.Unix(1500000000+int64(g.r.Intn(200000000)), int64(g.r.Intn(1000000000))).UTC()
	}
}

func (g *gen) sliceLen(elem reflect.Type) int {
	if g.budget <= 0 {
		return 0
	}
	cheap := false
	switch elem.Kind() {
	case reflect.Uint8, reflect.Uint16, reflect.Uint32, reflect.Uint64, reflect.Uint, reflect.Int, reflect.Int8, reflect.Int16, reflect.Int32, reflect.Int64, reflect.Bool:
		cheap = true
	case reflect.Array:
		cheap = elem.Elem().Kind() == reflect.Uint8 && elem.Len() <= 32
	}
	x := g.r.Intn(100)
	switch {
	case x < 18:
		return 0
	case x < 48:
		return 1
	case x < 85:
		return g.r.Range(2, 4)
	case x < 95:
		return g.r.Range(5, 9)
	default:
		if cheap {
			return g.r.Range(10, 70)
		}
		return g.r.Range(5, 12)
	}
}

// fill sets v (settable, of any supported type) to a generated value.
func (g *gen) fill(v reflect.Value, depth int) {
	t := v.Type()
	g.st.Nodes++
	switch {
	case t == timeType:
		v.Set(reflect.ValueOf(g.time()))
		return
	case t == bigIntPtr:
		if g.r.Chance(0.12) {
			g.st.NilPtrs++
			return // nil
		}
		v.Set(reflect.ValueOf(g.bigInt()))
		return
	case t == bigIntType:
		v.Set(reflect.ValueOf(*g.bigInt()))
		return
	case t == rawValueType:
		g.err = "ser.RawValue reachable (not modelled)"
		return
	}
	switch t.Kind() {
	case reflect.Bool:
		v.SetBool(g.r.Bool())
	case reflect.Int, reflect.Int8, reflect.Int16, reflect.Int32, reflect.Int64:
		v.SetInt(g.intN(t.Bits()))
	case reflect.Uint, reflect.Uint8, reflect.Uint16, reflect.Uint32, reflect.Uint64, reflect.Uintptr:
		v.SetUint(g.uintN(t.Bits()))
	case reflect.String:
		v.SetString(string(g.bytes(g.byteLen())))
	case reflect.Slice:
		if t.Elem().Kind() == reflect.Uint8 {
			n := g.byteLen()
			if n == 0 && g.r.Bool() {
				return // nil
			}
			v.Set(reflect.ValueOf(g.bytes(n)).Convert(t))
			return
		}
		n := g.sliceLen(t.Elem())
		if n == 0 {
			if g.r.Bool() {
				v.Set(reflect.MakeSlice(t, 0, 0))
			}
			return
		}
		g.budget -= n
		s := reflect.MakeSlice(t, n, n)
		for i := 0; i < n; i++ {
			g.fill(s.Index(i), depth+1)
		}
		v.Set(s)
	case reflect.Array:
		if t.Elem().Kind() == reflect.Uint8 {
			b := g.bytes(t.Len())
			reflect.Copy(v, reflect.ValueOf(b))
			return
		}
		for i := 0; i < t.Len(); i++ {
			g.fill(v.Index(i), depth+1)
		}
	case reflect.Ptr:
		if g.budget <= 0 || g.r.Chance(0.15) {
			g.st.NilPtrs++
			return
		}
		g.budget--
		p := reflect.New(t.Elem())
		g.fill(p.Elem(), depth+1)
		v.Set(p)
	case reflect.Map:
		g.st.Maps++
		if g.r.Chance(0.1) {
			return // nil map
		}
		n := 0
		if g.budget > 0 {
			n = []int{0, 1, 2, 3, 4, 6, 9, 14}[g.r.Intn(8)]
		}
		g.budget -= n
		keys := make([]reflect.Value, 0, n)
		vals := make([]reflect.Value, 0, n)
		seen := map[string]bool{}
		for i := 0; i < n; i++ {
			k := reflect.New(t.Key()).Elem()
			g.fill(k, depth+1)
			if g.r.Chance(0.3) && t.Key().Kind() == reflect.Array && len(keys) > 0 {
				// near-duplicate key: differs from an earlier key in the last byte only
				k.Set(keys[g.r.Intn(len(keys))])
				last := k.Index(t.Key().Len() - 1)
				last.SetUint(uint64(g.r.Intn(256)))
			}
			ks := fmt.Sprintf("%v", k.Interface())
			if seen[ks] {
				continue
			}
			seen[ks] = true
			e := reflect.New(t.Elem()).Elem()
			g.fill(e, depth+1)
			if e.Kind() == reflect.Ptr && e.IsNil() {
				if g.evil && g.r.Chance(0.1) {
					g.st.Refusable = "nil map value"
				} else if t.Elem() == bigIntPtr {
					e.Set(reflect.ValueOf(new(big.Int)))
				}
			}
			keys = append(keys, k)
			vals = append(vals, e)
		}
		m := reflect.MakeMapWithSize(t, len(keys))
		if g.rev {
			for i := len(keys) - 1; i >= 0; i-- {
				m.SetMapIndex(keys[i], vals[i])
			}
		} else {
			for i := range keys {
				m.SetMapIndex(keys[i], vals[i])
			}
		}
		g.st.MapEntries += len(keys)
		v.Set(m)
	case reflect.Interface:
		ri := g.reg.iface[t]
		if ri == nil {
			g.err = fmt.Sprintf("unregistered interface type %v reachable in an encoded position", t)
			return
		}
		if g.budget <= 0 || depth > 12 || g.r.Chance(0.1) || len(ri.Impl) == 0 {
			g.st.NilIfaces++
			return
		}
		g.budget--
		g.st.Ifaces++
		rc := ri.pick(g.r)
		if g.evil && rc.PointerPreferred && g.r.Chance(0.01) {
			g.st.Refusable = "typed nil pointer in interface"
			v.Set(reflect.Zero(reflect.PtrTo(rc.Type)))
			return
		}
		p := reflect.New(rc.Type)
		g.fill(p.Elem(), depth+1)
		if rc.PointerPreferred {
			v.Set(p)
		} else {
			v.Set(p.Elem())
		}
	case reflect.Struct:
		g.fillStruct(v, depth)
	default:
		g.err = fmt.Sprintf("unsupported kind %v (%v) reachable", t.Kind(), t)
	}
}

func (g *gen) fillStruct(v reflect.Value, depth int) {
	t := v.Type()
	if pf := payloadFields(t); len(pf) > 0 {
		for _, i := range pf {
			g.fill(settable(v, i), depth+1)
		}
		return
	}
	if hasCustomCodec(t) && exportedFieldCount(t) == 0 {
		g.err = fmt.Sprintf("custom codec type %v without recognisable payload", t)
		return
	}
	subset := encodedSubset[t.String()]
	for i := 0; i < t.NumField(); i++ {
		f := t.Field(i)
		if f.PkgPath != "" || rlpIgnored(f) {
			continue
		}
		if subset != nil {
			ok := false
			for _, n := range subset {
				if n == f.Name {
					ok = true
				}
			}
			if !ok {
				continue
			}
		}
		g.fill(v.Field(i), depth+1)
	}
}

// value generates an addressable value of type t.
func (g *gen) value(t reflect.Type) reflect.Value {
	p := reflect.New(t)
	g.fill(p.Elem(), 0)
	return p.Elem()
}
