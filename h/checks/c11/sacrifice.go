package c11

import (
	"bytes"
	"fmt"
	"math/big"
	"os"
	"os/exec"
	"reflect"
	"regexp"
	"strconv"
	"strings"
	"time"

	"github.com/lianxiangcloud/linkchain/consensus"
	"github.com/lianxiangcloud/linkchain/libs/common"
	"github.com/lianxiangcloud/linkchain/libs/ser"
	"github.com/lianxiangcloud/linkchain/state"
)

// Some inputs cannot be tried inside the case's own process because the outcome
// under test is a *fatal* runtime error (stack exhaustion, out of memory), which
// recover() cannot intercept. Those few decodes run in a sacrificial process: the
// same binary, started through the runner's ordinary child entry with
// C11_SACRIFICE set, performs the one decode inside Init and exits. The case
// observes whether that process survived.
//
//	nest-blockchain:<depth>  depth levels of the registered recursive container
//	                         consensus.msgInfo{Msg ConsensusMessage} given to the
//	                         blockchain reactor's decodeMsg (its own size limit,
//	                         types.MaxBlockSizeBytes+5 = 100 MiB, admits the input)
//	maplen-account:<hex>     a state.Account whose token map claims <hex> entries

const sacrificeEnv = "C11_SACRIFICE"

// nestLinear builds depth levels of msgInfo around leaf in linear time.
func nestLinear(df [7]byte, leaf []byte, depth int) []byte {
	payload := make([]int, depth+1) // payload[i]: list payload size at level i (1..depth)
	size := len(leaf)
	for i := 1; i <= depth; i++ {
		payload[i] = size + 1 // inner value + PeerID "p"
		size = 7 + headerLen(uint64(payload[i]), 0) + payload[i]
	}
	out := make([]byte, 0, size)
	for i := depth; i >= 1; i-- {
		out = append(out, df[:]...)
		out = putHeader(out, 0xc0, uint64(payload[i]), 0)
	}
	out = append(out, leaf...)
	for i := 0; i < depth; i++ {
		out = append(out, 'p')
	}
	return out
}

func runSacrifice(spec string) {
	parts := strings.SplitN(spec, ":", 2)
	defer func() {
		if r := recover(); r != nil {
			fmt.Printf("SACRIFICE PANIC %v\n", r)
			os.Exit(0)
		}
	}()
	switch parts[0] {
	case "nest-blockchain":
		depth, _ := strconv.Atoi(parts[1])
		mi := reg.byName["consensus/wal/MsgInfo"]
		leaf := ser.MustEncodeToBytesWithType(&consensus.HasVoteMessage{Height: 1})
		b := nestLinear(mi.Disfix, leaf, depth)
		fmt.Printf("SACRIFICE input %d bytes\n", len(b))
		_, err := blockchainDecodeMsg(b)
		fmt.Printf("SACRIFICE SURVIVED err=%v\n", err)
	case "maplen-account":
		a := state.Account{Nonce: 1, Balance: big.NewInt(1), Tokens: map[common.Address]*big.Int{{1}: big.NewInt(1)}}
		enc := ser.MustEncodeToBytes(a)
		root, err := parseEncoding(reg, enc, reflect.TypeOf(a), false)
		if err != nil {
			fmt.Printf("SACRIFICE HARNESS %v\n", err)
			return
		}
		root.walk(func(n, _ *node) {
			if n.sem == semMapLen {
				n.data = []byte(parts[1])
			}
		}, nil)
		b := root.serialize(nil)
		fmt.Printf("SACRIFICE input %d bytes: %x\n", len(b), b)
		var out state.Account
		err = ser.DecodeBytes(b, &out)
		fmt.Printf("SACRIFICE SURVIVED err=%v\n", err)
	default:
		fmt.Printf("SACRIFICE HARNESS unknown spec %q\n", spec)
	}
}

var fatalRe = regexp.MustCompile(`(?m)^fatal error: (.*)$`)

// sacrifice runs one dangerous decode in a separate process and judges its fate.
func (cs *caseState) sacrifice(spec, what string) {
	c := cs.c
	exe, err := os.Executable()
	if err != nil {
		c.Inconclusive("sacrifice: " + err.Error())
		return
	}
	cmd := exec.Command(exe, "--child", c.ID, c.Tier, strconv.FormatUint(c.Seed, 10), "0", "0", os.DevNull)
	cmd.Env = append(os.Environ(), sacrificeEnv+"="+spec)
	var buf bytes.Buffer
	cmd.Stdout, cmd.Stderr = &buf, &buf
	if err := cmd.Start(); err != nil {
		c.Inconclusive("sacrifice: " + err.Error())
		return
	}
	done := make(chan error, 1)
	go func() { done <- cmd.Wait() }()
	var werr error
	select {
	case werr = <-done:
	case <-time.After(5 * time.Minute): // generous watchdog; firing is inconclusive, never a verdict
		cmd.Process.Kill()
		<-done
		c.Inconclusive("sacrificial decode exceeded the watchdog: " + spec)
		return
	}
	c.Count("sacrificial_decodes", 1)
	out := buf.String()
	switch {
	case strings.Contains(out, "SACRIFICE SURVIVED"):
		c.Count("sacrificial_decodes_survived", 1)
		c.Logf("sacrifice %s: %s", spec, lastLine(out))
	case strings.Contains(out, "SACRIFICE HARNESS"):
		c.Inconclusive("sacrifice: " + lastLine(out))
	case strings.Contains(out, "SACRIFICE PANIC"):
		// a recoverable panic: the in-process part of the check is responsible for those
		c.Count("sacrificial_decodes_panicked", 1)
	default:
		c.Count("sacrificial_decodes_process_died", 1)
		class := "unknown"
		if m := fatalRe.FindStringSubmatch(out); m != nil {
			class = strings.Join(strings.Fields(numRe.ReplaceAllString(m[1], "N")), "_")
		}
		tail := out
		if i := strings.Index(tail, "fatal error:"); i >= 0 {
			tail = tail[i:]
		}
		if len(tail) > 2500 {
			tail = tail[:2500]
		}
		head := out
		if len(head) > 300 {
			head = head[:300]
		}
		cs.violation(vkey("decode-fatal", cs.tg.name, class), fmt.Sprintf("%s: the decoding process died (%v): fatal error: %s", what, werr, class),
			map[string]interface{}{"target": cs.tg.name, "spec": spec, "what": what, "process_output_head": head, "fatal": tail})
	}
}

func lastLine(s string) string {
	s = strings.TrimSpace(s)
	if i := strings.LastIndex(s, "\n"); i >= 0 {
		s = s[i+1:]
	}
	if len(s) > 300 {
		s = s[:300]
	}
	return s
}
