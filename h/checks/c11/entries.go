package c11

import (
	"bytes"
	"encoding/binary"
	"fmt"
	"hash/crc32"
	"io"
	"reflect"
	"regexp"
	"runtime"
	"strings"
	_ "unsafe"

	"github.com/lianxiangcloud/linkchain/blockchain"
	"github.com/lianxiangcloud/linkchain/consensus"
	"github.com/lianxiangcloud/linkchain/evidence"
	"github.com/lianxiangcloud/linkchain/libs/ser"
	"github.com/lianxiangcloud/linkchain/mempool"
)

// The reactors' own decode wrappers are unexported; they are called directly
// (bodyless declarations bound by linkname; stub.s makes that legal).

//go:linkname consensusDecodeMsg github.com/lianxiangcloud/linkchain/consensus.decodeMsg
func consensusDecodeMsg(bz []byte) (msg consensus.ConsensusMessage, err error)

//go:linkname mempoolDecodeMsg github.com/lianxiangcloud/linkchain/mempool.decodeMsg
func mempoolDecodeMsg(bz []byte) (msg mempool.MempoolMessage, err error)

//go:linkname blockchainDecodeMsg github.com/lianxiangcloud/linkchain/blockchain.decodeMsg
func blockchainDecodeMsg(bz []byte) (msg blockchain.BlockchainMessage, err error)

//go:linkname evidenceDecodeMsg github.com/lianxiangcloud/linkchain/evidence.decodeMsg
func evidenceDecodeMsg(bz []byte) (msg evidence.EvidenceMessage, err error)

// chunkReader is an io.Reader that is not an io.ByteReader and returns short reads.
type chunkReader struct {
	b     []byte
	chunk int
}

func (c *chunkReader) Read(p []byte) (int, error) {
	if len(c.b) == 0 {
		return 0, io.EOF
	}
	n := c.chunk
	if n > len(p) {
		n = len(p)
	}
	if n > len(c.b) {
		n = len(c.b)
	}
	copy(p, c.b[:n])
	c.b = c.b[n:]
	return n, nil
}

// entry is one decoder entry point applied to a destination type.
type entry struct {
	name string
	// typed: the entry consumes the 7 prefix bytes of a registered concrete destination
	typed bool
	// limit: explicit input limit passed to the reader variants (0 = none besides the input itself)
	limit int64
	// only: the entry exists only for this destination type (reactor wrappers, WAL)
	only reflect.Type
	// call decodes b into a fresh destination of type t and returns the decoded value (addressable) and the error
	call func(t reflect.Type, b []byte) (reflect.Value, int64, error)
}

var crc32c = crc32.MakeTable(crc32.Castagnoli)

func walFrame(payload []byte) []byte {
	out := make([]byte, 8, 8+len(payload))
	binary.BigEndian.PutUint32(out[0:4], crc32.Checksum(payload, crc32c))
	binary.BigEndian.PutUint32(out[4:8], uint32(len(payload)))
	return append(out, payload...)
}

func ifaceResult(v interface{}, t reflect.Type) reflect.Value {
	p := reflect.New(t)
	if v != nil {
		p.Elem().Set(reflect.ValueOf(v))
	}
	return p.Elem()
}

func buildEntries() []*entry {
	es := []*entry{
		{name: "DecodeBytes", call: func(t reflect.Type, b []byte) (reflect.Value, int64, error) {
			p := reflect.New(t)
			err := ser.DecodeBytes(b, p.Interface())
			return p.Elem(), -1, err
		}},
		{name: "DecodeBytesWithType", typed: true, call: func(t reflect.Type, b []byte) (reflect.Value, int64, error) {
			p := reflect.New(t)
			err := ser.DecodeBytesWithType(b, p.Interface())
			return p.Elem(), -1, err
		}},
		{name: "DecodeReader/bytes.Reader/limit=len", call: func(t reflect.Type, b []byte) (reflect.Value, int64, error) {
			p := reflect.New(t)
			n, err := ser.DecodeReader(bytes.NewReader(b), p.Interface(), int64(len(b)))
			return p.Elem(), n, err
		}},
		{name: "DecodeReader/chunked/limit=64KiB", limit: 65536, call: func(t reflect.Type, b []byte) (reflect.Value, int64, error) {
			p := reflect.New(t)
			n, err := ser.DecodeReader(&chunkReader{b: b, chunk: 7}, p.Interface(), 65536)
			return p.Elem(), n, err
		}},
		{name: "DecodeReader/chunked/limit=1MiB", limit: 1 << 20, call: func(t reflect.Type, b []byte) (reflect.Value, int64, error) {
			p := reflect.New(t)
			n, err := ser.DecodeReader(&chunkReader{b: b, chunk: 1000}, p.Interface(), 1<<20)
			return p.Elem(), n, err
		}},
		{name: "DecodeReaderWithType/chunked/limit=64KiB", typed: true, limit: 65536, call: func(t reflect.Type, b []byte) (reflect.Value, int64, error) {
			p := reflect.New(t)
			n, err := ser.DecodeReaderWithType(&chunkReader{b: b, chunk: 13}, p.Interface(), 65536)
			return p.Elem(), n, err
		}},
		{name: "consensus.decodeMsg", typed: true, only: reflect.TypeOf((*consensus.ConsensusMessage)(nil)).Elem(), call: func(t reflect.Type, b []byte) (reflect.Value, int64, error) {
			m, err := consensusDecodeMsg(b)
			return ifaceResult(m, t), -1, err
		}},
		{name: "mempool.decodeMsg", typed: true, only: reflect.TypeOf((*mempool.MempoolMessage)(nil)).Elem(), call: func(t reflect.Type, b []byte) (reflect.Value, int64, error) {
			m, err := mempoolDecodeMsg(b)
			return ifaceResult(m, t), -1, err
		}},
		{name: "blockchain.decodeMsg", typed: true, only: reflect.TypeOf((*blockchain.BlockchainMessage)(nil)).Elem(), call: func(t reflect.Type, b []byte) (reflect.Value, int64, error) {
			m, err := blockchainDecodeMsg(b)
			return ifaceResult(m, t), -1, err
		}},
		{name: "evidence.decodeMsg", typed: true, only: reflect.TypeOf((*evidence.EvidenceMessage)(nil)).Elem(), call: func(t reflect.Type, b []byte) (reflect.Value, int64, error) {
			m, err := evidenceDecodeMsg(b)
			return ifaceResult(m, t), -1, err
		}},
		{name: "consensus.WALDecoder", only: reflect.TypeOf(consensus.TimedWALMessage{}), call: func(t reflect.Type, b []byte) (reflect.Value, int64, error) {
			dec := consensus.NewWALDecoder(bytes.NewReader(walFrame(b)))
			m, err := dec.Decode()
			p := reflect.New(t)
			if m != nil {
				p.Elem().Set(reflect.ValueOf(*m))
			}
			return p.Elem(), -1, err
		}},
	}
	return es
}

// outcome of one guarded decode
type outcome struct {
	val      reflect.Value
	consumed int64
	err      error
	panicked bool
	pmsg     string
	pfunc    string // first frame inside the repository below the panic
	pstack   string
	alloc    uint64
}

var numRe = regexp.MustCompile(`0x[0-9a-fA-F]+|\d+`)

// panicClass reduces a panic message to a stable class (no types, no numbers).
func panicClass(msg string) string {
	msg = strings.TrimPrefix(msg, "runtime error: ")
	switch {
	case strings.HasPrefix(msg, "reflect.Set:"), strings.HasPrefix(msg, "reflect: "), strings.HasPrefix(msg, "reflect."):
		if i := strings.Index(msg, " "); i > 0 {
			w := strings.Fields(msg)
			if len(w) >= 2 && strings.HasPrefix(msg, "reflect: ") {
				msg = "reflect:" + w[1]
			} else {
				msg = strings.TrimSuffix(w[0], ":")
			}
		}
	case strings.Contains(msg, "nil pointer dereference"):
		msg = "nil-pointer-dereference"
	case strings.Contains(msg, "index out of range"):
		msg = "index-out-of-range"
	case strings.Contains(msg, "slice bounds out of range"):
		msg = "slice-bounds-out-of-range"
	}
	msg = numRe.ReplaceAllString(msg, "N")
	msg = strings.Join(strings.Fields(msg), "-")
	if len(msg) > 48 {
		msg = msg[:48]
	}
	return msg
}

func shortFunc(fn string) string {
	fn = strings.TrimPrefix(fn, repoPath)
	if i := strings.LastIndex(fn, "/"); i >= 0 {
		fn = fn[i+1:]
	}
	return fn
}

// guard runs f, converting a panic into an observation with the panicking repository function.
func guard(f func() (reflect.Value, int64, error)) (o outcome) {
	defer func() {
		if r := recover(); r != nil {
			o.panicked = true
			o.pmsg = fmt.Sprint(r)
			pcs := make([]uintptr, 64)
			n := runtime.Callers(2, pcs)
			frames := runtime.CallersFrames(pcs[:n])
			var sb strings.Builder
			for {
				fr, more := frames.Next()
				if o.pfunc == "" && strings.HasPrefix(fr.Function, repoPath) {
					o.pfunc = shortFunc(fr.Function)
				}
				if sb.Len() < 2500 {
					fmt.Fprintf(&sb, "%s (%s:%d)\n", fr.Function, fr.File, fr.Line)
				}
				if !more {
					break
				}
			}
			if o.pfunc == "" {
				o.pfunc = "unknown"
			}
			o.pstack = sb.String()
		}
	}()
	o.val, o.consumed, o.err = f()
	return
}

// measured runs a guarded decode and records the bytes allocated during it
// (runtime.MemStats.TotalAlloc is cumulative, so the collector does not disturb it;
// the child runs one case at a time and the check starts no goroutines).
func measured(f func() (reflect.Value, int64, error)) outcome {
	var m0, m1 runtime.MemStats
	runtime.ReadMemStats(&m0)
	o := guard(f)
	runtime.ReadMemStats(&m1)
	o.alloc = m1.TotalAlloc - m0.TotalAlloc
	return o
}

// guardEncode encodes v (an addressable reflect value) the way the node does for that shape.
func guardEncode(f func() ([]byte, error)) (b []byte, err error, panicked bool, pmsg, pfunc string) {
	o := guard(func() (reflect.Value, int64, error) {
		var e error
		b, e = f()
		return reflect.Value{}, 0, e
	})
	return b, o.err, o.panicked, o.pmsg, o.pfunc
}
