package c11

import (
	"fmt"
	"math/big"
	"reflect"
	"runtime/debug"

	"github.com/lianxiangcloud/linkchain/consensus"
	"github.com/lianxiangcloud/linkchain/libs/common"
	"github.com/lianxiangcloud/linkchain/libs/crypto"
	"github.com/lianxiangcloud/linkchain/libs/ser"
	"github.com/lianxiangcloud/linkchain/mempool"
	"github.com/lianxiangcloud/linkchain/state"
	"github.com/lianxiangcloud/linkchain/types"
)

func try(name string, f func()) {
	defer func() {
		if r := recover(); r != nil {
			fmt.Printf("%s: PANIC %v\n%s\n", name, r, debug.Stack()[:1500])
		}
	}()
	f()
}

func Probe() {
	cs, _ := readRegistry()
	byName := map[string]*regConcrete{}
	for _, c := range cs {
		byName[c.Name] = c
	}
	// F2: TxMessage whose Tx carries the prefix of a PubKey
	try("F2", func() {
		pk := crypto.PubKeyEd25519{}
		body, _ := ser.EncodeToBytes(pk)
		inner := append(append([]byte{}, byName["PubKeyEd25519"].Disfix[:]...), body...)
		// TxMessage = list[ Tx ]
		payload := inner
		hdr := []byte{0xc0 + byte(len(payload))}
		enc := append(append(append([]byte{}, byName["mempool/TxMessage"].Disfix[:]...), hdr...), payload...)
		var msg mempool.MempoolMessage
		err := ser.DecodeBytesWithType(enc, &msg)
		fmt.Printf("F2: err=%v msg=%#v\n", err, msg)
	})
	// S8: vote message truncated
	try("S8", func() {
		v := &consensus.VoteMessage{Vote: &types.Vote{ValidatorAddress: []byte{1, 2, 3}, Height: 7, Round: 2, Type: 1}}
		enc := ser.MustEncodeToBytesWithType(v)
		fmt.Printf("S8 valid: %x\n", enc)
		for cut := 1; cut < 12; cut++ {
			var msg consensus.ConsensusMessage
			err := ser.DecodeBytesWithType(enc[:len(enc)-cut], &msg)
			fmt.Printf("S8 cut=%d err=%v msg=%T %+v\n", cut, err, msg, msg)
			if vm, ok := msg.(*consensus.VoteMessage); ok && vm != nil {
				fmt.Printf("     vote=%+v\n", vm.Vote)
			}
		}
	})
	// F1: account map length
	try("F1", func() {
		a := state.Account{Nonce: 1, Balance: big.NewInt(5), Tokens: map[common.Address]*big.Int{common.Address{1}: big.NewInt(3)}}
		enc, err := ser.EncodeToBytes(a)
		fmt.Printf("F1 valid: %x err=%v\n", enc, err)
		var b state.Account
		err = ser.DecodeBytes(enc, &b)
		fmt.Printf("F1 rt err=%v eq=%v\n", err, reflect.DeepEqual(a, b))
	})
}
