package c11

import (
	"reflect"

	"github.com/lianxiangcloud/linkchain/blockchain"
	"github.com/lianxiangcloud/linkchain/consensus"
	"github.com/lianxiangcloud/linkchain/evidence"
	"github.com/lianxiangcloud/linkchain/mempool"
	"github.com/lianxiangcloud/linkchain/state"
	"github.com/lianxiangcloud/linkchain/types"
)

var _ = blockchain.RegisterBlockchainMessages
var _ = evidence.RegisterEvidenceMessages
var _ = mempool.RegisterMempoolMessages

func extraRoots() []reflect.Type {
	return []reflect.Type{
		reflect.TypeOf(types.Block{}),
		reflect.TypeOf(consensus.NewStatus{}),
		reflect.TypeOf(consensus.TimedWALMessage{}),
		reflect.TypeOf(state.Account{}),
		reflect.TypeOf(types.TxsResult{}),
		reflect.TypeOf(types.Receipt{}),
		reflect.TypeOf(types.ReceiptForStorage{}),
		reflect.TypeOf(types.ValidatorSet{}),
		reflect.TypeOf(types.BlockMeta{}),
	}
}
