// Package shimtest is the self-test of the libxcrypto stand-in (DESIGN.md §2). It is run by
// setup (run.sh --setup) and is not a property check.
package shimtest

import (
	"fmt"

	"github.com/lianxiangcloud/linkchain/libs/cryptonote/ringct"
	lt "github.com/lianxiangcloud/linkchain/libs/cryptonote/types"
	"github.com/lianxiangcloud/linkchain/libs/cryptonote/xcrypto"

	"verif/h/internal/core"
	"verif/shim/goshim"
)

func init() {
	core.Register(&core.Check{
		ID:        "SHIM",
		Level:     "other",
		Technique: "self-test of the crypto stand-in: algebraic identities, prove->verify, tamper->reject",
		Rule:      "case = random scalars/amounts; identities of the group, commitments, key derivation, ring signatures, MLSAG, range proofs; non-trivial = every case",
		Cases:     func(string) int { return 48 },
		Run:       run,
		Init:      core.QuietLogs,
		Floors:    func(string) map[string]int64 { return map[string]int64{"identities": 400, "tampered_rejected": 400} },
	})
}

func fail(c *core.Ctx, what string, a ...interface{}) {
	c.Violation("shim/"+what, fmt.Sprintf(what+": "+fmt.Sprint(a...)), nil)
}

func run(c *core.Ctx) {
	r := c.Rng
	goshim.Seed(r.Bytes(16))
	ok := func(b bool, what string, a ...interface{}) {
		c.Count("identities", 1)
		if !b {
			fail(c, what, a...)
		}
	}
	rej := func(b bool, what string) {
		c.Count("tampered_rejected", 1)
		if b {
			fail(c, "tamper-accepted/"+what)
		}
	}
	a, b := goshim.RandomScalar(), goshim.RandomScalar()
	A, B := goshim.MulBase(a), goshim.MulBase(b)
	s1, _ := goshim.PtAdd(A, B)
	ok(s1 == goshim.MulBase(goshim.ScAdd(a, b)), "aG+bG=(a+b)G")
	ab, _ := goshim.PtMul(a, B)
	ba, _ := goshim.PtMul(b, A)
	ok(ab == ba, "a(bG)=b(aG)")
	d, _ := goshim.PtSub(s1, B)
	ok(d == A, "(A+B)-B=A")
	e8, _ := ringct.Scalarmult8(A)
	i8, _ := ringct.ScalarmultKey(e8, ringct.INV_EIGHT)
	ok(i8 == A, "inv8*(8A)=A")
	lA, _ := ringct.ScalarmultKey(A, ringct.CurveOrder())
	ok(lA == ringct.Identity(), "L*A=identity")
	// commitments are homomorphic
	m1, m2 := goshim.RandomScalar(), goshim.RandomScalar()
	v1, v2 := r.Uint64()>>2, r.Uint64()>>2
	c1, c2 := goshim.Commit(m1, v1), goshim.Commit(m2, v2)
	cs, _ := goshim.PtAdd(c1, c2)
	ok(cs == goshim.Commit(goshim.ScAdd(m1, m2), v1+v2), "C(m1,v1)+C(m2,v2)=C(m1+m2,v1+v2)")
	gc, _ := xcrypto.GenC(m1, lt.Lk_amount(v1))
	ok(gc == c1, "GenC == Commit")
	// key derivation: sender and receiver agree; ownership test
	spendSK, spendPK := xcrypto.GenerateKeys(lt.SecretKey(goshim.RandomScalar()))
	viewSK, viewPK := xcrypto.GenerateKeys(lt.SecretKey(goshim.RandomScalar()))
	rsk, rpk := xcrypto.SkpkGen()
	dS, e1 := xcrypto.GenerateKeyDerivation(viewPK, lt.SecretKey(rsk))
	dR, e2 := xcrypto.GenerateKeyDerivation(lt.PublicKey(rpk), viewSK)
	ok(e1 == nil && e2 == nil && dS == dR, "derivation symmetric")
	idx := r.Intn(5)
	ot, _ := xcrypto.DerivePublicKey(dS, idx, spendPK)
	back, _ := xcrypto.DeriveSubaddressPublicKey(ot, dR, idx)
	ok(back == spendPK, "derive_subaddress_public_key inverts derive_public_key")
	osk, _ := xcrypto.DeriveSecretKey(dR, idx, spendSK)
	opk, _ := xcrypto.SecretKeyToPublicKey(osk)
	ok(opk == ot, "derived secret key opens the one-time address")
	wrong, _ := xcrypto.DeriveSubaddressPublicKey(ot, dR, idx+1)
	rej(wrong == spendPK, "ownership with wrong index")
	// key image + ring signature (ring size 1)
	ki, _ := xcrypto.GenerateKeyImage(ot, osk)
	var msg lt.Hash
	copy(msg[:], r.Bytes(32))
	sig, err := xcrypto.GenerateRingSignature(msg, ki, []lt.PublicKey{ot}, osk, 0)
	ok(err == nil && xcrypto.CheckRingSignature(msg, ki, []lt.PublicKey{ot}, sig), "ring signature verifies")
	msg2 := msg
	msg2[0] ^= 1
	rej(xcrypto.CheckRingSignature(msg2, ki, []lt.PublicKey{ot}, sig), "ring sig other message")
	ki2, _ := xcrypto.GenerateKeyImage(lt.PublicKey(A), lt.SecretKey(a))
	rej(xcrypto.CheckRingSignature(msg, ki2, []lt.PublicKey{ot}, sig), "ring sig other key image")
	rej(xcrypto.CheckRingSignature(msg, ki, []lt.PublicKey{lt.PublicKey(A)}, sig), "ring sig other key")
	// range proof
	n := 1 + r.Intn(4)
	amounts := make([]lt.Lk_amount, n)
	sk := make(lt.KeyV, n)
	for i := range amounts {
		amounts[i] = lt.Lk_amount(r.Uint64())
		sk[i] = goshim.RandomScalar()
	}
	bp, cm, masks, err := ringct.ProveRangeBulletproof(ringct.FromLkamountsToKeyv(amounts), sk)
	ok(err == nil && len(cm) == n && len(masks) == n, "prove range")
	if err == nil {
		bp.V = cm
		v, err := ringct.VerBulletproof(bp)
		ok(err == nil && v, "range proof verifies")
		for i := 0; i < n; i++ {
			c8, _ := ringct.Scalarmult8(cm[i])
			ok(c8 == goshim.Commit(masks[i], uint64(amounts[i])), "8*V = C(mask, amount)")
		}
		bad := *bp
		bad.V = append(lt.KeyV{}, cm...)
		bad.V[0] = goshim.MulBase(goshim.RandomScalar())
		v, _ = ringct.VerBulletproof(&bad)
		rej(v, "range proof with other commitment")
		bad2 := *bp
		bad2.A[r.Intn(32)] ^= 4
		v, _ = ringct.VerBulletproof(&bad2)
		rej(v, "range proof with flipped field")
		_, _, _, err = ringct.ProveRangeBulletproof(lt.KeyV{lt.Key{0, 0, 0, 0, 0, 0, 0, 0, 1}}, lt.KeyV{sk[0]})
		rej(err == nil, "prove amount >= 2^64")
	}
	// MLSAG: prove/verify through the TLV entry points, tamper
	ringN := 1 + r.Intn(5)
	real := r.Intn(ringN)
	pubs := make(lt.CtkeyV, ringN)
	x, inMask := goshim.RandomScalar(), goshim.RandomScalar()
	amt := r.Uint64() >> 8
	for i := range pubs {
		pubs[i] = lt.Ctkey{Dest: goshim.MulBase(goshim.RandomScalar()), Mask: goshim.Commit(goshim.RandomScalar(), r.Uint64()>>8)}
	}
	pubs[real] = lt.Ctkey{Dest: goshim.MulBase(x), Mask: goshim.Commit(inMask, amt)}
	pa := goshim.RandomScalar()
	pseudo := goshim.Commit(pa, amt)
	var m lt.Key
	copy(m[:], r.Bytes(32))
	mg, err := ringct.ProveRctMGSimple(m, pubs, lt.Ctkey{Dest: x, Mask: inMask}, pa, pseudo, nil, nil, uint32(real))
	ok(err == nil, "mlsag prove", err)
	if err == nil {
		rv := &lt.RctSig{}
		rv.Type = uint8(lt.RCTTypeBulletproof)
		rv.Message = m
		rv.MixRing = lt.CtkeyM{pubs}
		rv.P.PseudoOuts = lt.KeyV{pseudo}
		rv.P.MGs = []lt.MgSig{*mg}
		// the verifier hashes message||base||bp, so prove with that hash for the positive case
		h, _ := ringct.GetPreMlsagHash(rv)
		mg2, _ := ringct.ProveRctMGSimple(h, pubs, lt.Ctkey{Dest: x, Mask: inMask}, pa, pseudo, nil, nil, uint32(real))
		rv.P.MGs = []lt.MgSig{*mg2}
		ok(ringct.VerRctNonSemanticsSimple(rv), "mlsag verifies")
		kiX, _ := xcrypto.GenerateKeyImage(lt.PublicKey(pubs[real].Dest), lt.SecretKey(x))
		ok(lt.Key(kiX) == mg2.II[0], "mlsag key image == generate_key_image")
		// a pseudo-out committing to a different amount must fail
		rv.P.PseudoOuts = lt.KeyV{goshim.Commit(pa, amt+1)}
		rej(ringct.VerRctNonSemanticsSimple(rv), "mlsag with inflated pseudo-out")
		rv.P.PseudoOuts = lt.KeyV{pseudo}
		rv.Message[0] ^= 1
		rej(ringct.VerRctNonSemanticsSimple(rv), "mlsag other message")
		rv.Message[0] ^= 1
		rv.TxnFee++
		rej(ringct.VerRctNonSemanticsSimple(rv), "mlsag other fee")
		rv.TxnFee--
		rv.P.MGs[0].Ss[0][0][0] ^= 1
		rej(ringct.VerRctNonSemanticsSimple(rv), "mlsag flipped scalar")
	}
	// ecdh
	t := &lt.EcdhTuple{Mask: m1, Amount: ringct.FromLkamountsToKeyv([]lt.Lk_amount{lt.Lk_amount(v1)})[0]}
	orig := *t
	shared := goshim.RandomScalar()
	xcrypto.EcdhEncode(t, shared, false)
	xcrypto.EcdhDecode(t, shared, false)
	ok(t.Mask == orig.Mask && t.Amount == orig.Amount, "ecdh round trip")
	// sub-addresses
	acc := &lt.AccountKey{Addr: lt.AccountAddress{SpendPublicKey: spendPK, ViewPublicKey: viewPK}, SpendSKey: spendSK, ViewSKey: viewSK}
	sa := xcrypto.GetSubaddress(acc, 3)
	msk := xcrypto.GetSubaddressSecretKey(viewSK, 3)
	dpk, _ := xcrypto.SecretKeyToPublicKey(xcrypto.SecretAdd(spendSK, msk))
	ok(dpk == sa.SpendPublicKey, "subaddress spend key = (b+m)G")
	c.Nontrivial(fmt.Sprintf("%d", c.Index))
	if c.Index == 0 {
		c.Sample(map[string]interface{}{"ring": ringN, "outputs": n})
	}
}
