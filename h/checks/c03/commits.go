package c03

// Part A: commits. One case = one key set, several (power assignment, commit) pairs derived by
// mutation from the fully signed commit; VerifyCommit and BlockExecutor.ValidateBlock are compared
// with refTally.

import (
	"fmt"
	"math/big"

	"github.com/lianxiangcloud/linkchain/consensus"
	"github.com/lianxiangcloud/linkchain/libs/common"
	"github.com/lianxiangcloud/linkchain/libs/crypto"
	"github.com/lianxiangcloud/linkchain/libs/log"
	"github.com/lianxiangcloud/linkchain/types"

	"verif/h/internal/core"
	"verif/h/internal/rng"
)

// classes of a slot that must NOT count for B.
var defectClasses = []string{
	"absent", "nilvote", "otherblock",
	"wrongheight", "wronground", "wrongtype", "wrongchain",
	"badsig-flip", "badsig-random", "badsig-nil", "badsig-type",
	"sig-of-other-validator", "vote-of-other-validator",
	"sig-from-other-height", "sig-from-other-round", "sig-from-other-block", "sig-from-prevote", "sig-from-other-time", "sig-from-other-chain",
}

// the three classes that leave a commit fully well formed
var benignClasses = []string{"absent", "nilvote", "otherblock"}

type commitInput struct {
	Scenario string
	Chain    string // arguments given to VerifyCommit
	B        types.BlockID
	H        uint64
	Slots    []*types.Vote
	Labels   []string
	Sp       split
	// CommitBID is the block id the commit declares for itself (Commit.BlockID): the block the votes were
	// really cast for, which differs from B when the verifier is asked about another block.
	CommitBID types.BlockID
}

type commitGen struct {
	r     *rng.R
	vals  []*val
	sg    *signer
	chain string
	B     types.BlockID
	H     uint64
	R     int
	ts    []int64 // per validator timestamp offsets (ms) so signatures differ between validators
	base  voteSpec
}

func (g *commitGen) spec(i int) voteSpec {
	sp := g.base
	sp.Time = sp.Time.Add(timeMs(g.ts[i]))
	return sp
}

// slot builds the content of slot i for a class.
func (g *commitGen) slot(i int, class string) (*types.Vote, string) {
	r := g.r
	n := len(g.vals)
	sp := g.spec(i)
	other := func() int { return (i + 1 + r.Intn(n-1)) % n }
	needsOther := class == "sig-of-other-validator" || class == "vote-of-other-validator"
	if needsOther && n == 1 {
		class = "badsig-flip"
	}
	switch class {
	case "good":
		return g.sg.vote(i, sp), class
	case "good-index-field":
		v := g.sg.vote(i, sp)
		v.ValidatorIndex = []int{-1, n, n + 3, (i + 1) % (n + 1)}[r.Intn(4)]
		return v, class
	case "good-address-field":
		v := g.sg.vote(i, sp)
		switch r.Intn(3) {
		case 0:
			v.ValidatorAddress = nil
		case 1:
			v.ValidatorAddress = crypto.Address(r.Bytes(20))
		default:
			v.ValidatorAddress = crypto.Address(append([]byte{}, g.vals[(i+1)%n].Addr...))
		}
		return v, class
	case "good-submilli-time":
		v := g.sg.vote(i, sp)
		v.Timestamp = v.Timestamp.Add(timeNs(int64(1 + r.Intn(999999))))
		return v, class
	case "absent":
		return nil, class
	case "nilvote":
		sp.Block = types.BlockID{}
		return g.sg.vote(i, sp), class
	case "otherblock":
		sp.Block = otherBlockID(r, g.B)
		return g.sg.vote(i, sp), class
	case "wrongheight":
		if r.Bool() || sp.Height < 2 {
			sp.Height++
		} else {
			sp.Height--
		}
		return g.sg.vote(i, sp), class
	case "wronground":
		sp.Round = sp.Round + 1 + r.Intn(3)
		return g.sg.vote(i, sp), class
	case "wrongtype":
		sp.Type = types.VoteTypePrevote
		return g.sg.vote(i, sp), class
	case "wrongchain", "sig-from-other-chain":
		good := g.sg.vote(i, sp)
		sp.Chain = otherChainID(r, g.chain)
		bad := g.sg.vote(i, sp)
		good.Signature = bad.Signature
		return good, class
	case "badsig-flip":
		v := g.sg.vote(i, sp)
		v.Signature = flipSig(r, v.Signature)
		return v, class
	case "badsig-random":
		v := g.sg.vote(i, sp)
		if g.vals[i].Secp {
			v.Signature = crypto.SignatureSecp256k1FromBytes(r.Bytes(70))
		} else {
			v.Signature = crypto.SignatureEd25519FromBytes(r.Bytes(64))
		}
		return v, class
	case "badsig-nil":
		v := g.sg.vote(i, sp)
		v.Signature = nil
		return v, class
	case "badsig-type":
		v := g.sg.vote(i, sp)
		if g.vals[i].Secp {
			v.Signature = crypto.SignatureEd25519FromBytes(r.Bytes(64))
		} else {
			es := v.Signature.(crypto.SignatureEd25519)
			v.Signature = crypto.SignatureSecp256k1FromBytes(es[:])
		}
		return v, class
	case "sig-of-other-validator":
		k := other()
		v := g.sg.vote(i, sp)
		// the other validator signs exactly the bytes of this vote
		v.Signature = g.sg.sign(k, refSignBytes(g.chain, v))
		return v, class
	case "vote-of-other-validator":
		k := other()
		return g.sg.vote(k, g.spec(k)), class
	case "sig-from-other-height":
		v := g.sg.vote(i, sp)
		sp.Height++
		v.Signature = g.sg.vote(i, sp).Signature
		return v, class
	case "sig-from-other-round":
		v := g.sg.vote(i, sp)
		sp.Round++
		v.Signature = g.sg.vote(i, sp).Signature
		return v, class
	case "sig-from-other-block":
		v := g.sg.vote(i, sp)
		sp.Block = otherBlockID(r, g.B)
		v.Signature = g.sg.vote(i, sp).Signature
		return v, class
	case "sig-from-prevote":
		v := g.sg.vote(i, sp)
		sp.Type = types.VoteTypePrevote
		v.Signature = g.sg.vote(i, sp).Signature
		return v, class
	case "sig-from-other-time":
		v := g.sg.vote(i, sp)
		sp.Time = sp.Time.Add(timeMs(int64(1 + r.Intn(5000))))
		v.Signature = g.sg.vote(i, sp).Signature
		return v, class
	}
	panic("unknown class " + class)
}

func (g *commitGen) goodClass() string {
	switch x := g.r.Intn(100); {
	case x < 88:
		return "good"
	case x < 92:
		return "good-index-field"
	case x < 96:
		return "good-address-field"
	default:
		return "good-submilli-time"
	}
}

// derive builds one (powers, commit, arguments) input.
func (g *commitGen) derive(k int) commitInput {
	r := g.r
	n := len(g.vals)
	in := commitInput{Chain: g.chain, B: g.B, H: g.H, Slots: make([]*types.Vote, n), Labels: make([]string, n), CommitBID: g.B}
	if k == 0 {
		// the unmutated commit: every validator signed B
		in.Scenario = "full"
		in.Sp = randomSplit(r, n)
		for i := range in.Sp.InS {
			in.Sp.InS[i] = true
		}
		for i := 0; i < n; i++ {
			in.Slots[i], in.Labels[i] = g.slot(i, "good")
		}
		return in
	}
	in.Sp = genSplit(r, n)
	x := r.Intn(100)
	switch {
	case x < 40: // one defect class for every validator outside S
		in.Scenario = "threshold+one-class"
		cl := defectClasses[r.Intn(len(defectClasses))]
		for i := 0; i < n; i++ {
			if in.Sp.InS[i] {
				in.Slots[i], in.Labels[i] = g.slot(i, "good")
			} else {
				in.Slots[i], in.Labels[i] = g.slot(i, cl)
			}
		}
	case x < 58: // well formed: only absent / nil / other block outside S
		in.Scenario = "threshold+benign"
		for i := 0; i < n; i++ {
			if in.Sp.InS[i] {
				in.Slots[i], in.Labels[i] = g.slot(i, "good")
			} else {
				in.Slots[i], in.Labels[i] = g.slot(i, benignClasses[r.Intn(len(benignClasses))])
			}
		}
	case x < 72: // mixed classes, unauthenticated fields varied on the good votes
		in.Scenario = "threshold+mixed"
		for i := 0; i < n; i++ {
			if in.Sp.InS[i] {
				in.Slots[i], in.Labels[i] = g.slot(i, g.goodClass())
			} else {
				in.Slots[i], in.Labels[i] = g.slot(i, defectClasses[r.Intn(len(defectClasses))])
			}
		}
	case x < 82: // everything signed correctly, but for other arguments than the ones verified
		which := []string{"args-chain", "args-block", "args-height"}[r.Intn(3)]
		in.Scenario = which
		for i := 0; i < n; i++ {
			in.Slots[i], in.Labels[i] = g.slot(i, "good")
			in.Labels[i] = which
		}
		switch which {
		case "args-chain":
			in.Chain = otherChainID(r, g.chain)
		case "args-block":
			in.B = otherBlockID(r, g.B)
		case "args-height":
			if r.Bool() || in.H < 2 {
				in.H++
			} else {
				in.H--
			}
		}
	case x < 90: // S signs correctly but in two different rounds
		in.Scenario = "two-rounds"
		for i := 0; i < n; i++ {
			if !in.Sp.InS[i] {
				in.Slots[i], in.Labels[i] = g.slot(i, benignClasses[r.Intn(len(benignClasses))])
				continue
			}
			if r.Chance(0.4) {
				sp := g.spec(i)
				sp.Round += 1 + r.Intn(2)
				in.Slots[i], in.Labels[i] = g.sg.vote(i, sp), "good-in-other-round"
			} else {
				in.Slots[i], in.Labels[i] = g.slot(i, "good")
			}
		}
	case x < 95: // every vote one slot to the right
		in.Scenario = "shifted"
		for i := 0; i < n; i++ {
			src := (i + n - 1) % n
			if n == 1 {
				in.Slots[i], in.Labels[i] = g.slot(i, "badsig-flip")
				continue
			}
			in.Slots[i], in.Labels[i] = g.sg.vote(src, g.spec(src)), "shifted"
		}
	default: // slot count differs from the validator set
		in.Scenario = "size"
		for i := 0; i < n; i++ {
			in.Slots[i], in.Labels[i] = g.slot(i, "good")
		}
		switch r.Intn(3) {
		case 0:
			in.Slots, in.Labels = in.Slots[:n-1], in.Labels[:n-1]
		case 1:
			in.Slots, in.Labels = append(in.Slots, nil), append(in.Labels, "absent")
		default:
			in.Slots, in.Labels = append(in.Slots, g.sg.vote(0, g.spec(0))), append(in.Labels, "extra-slot")
		}
	}
	return in
}

// failureLabel names the class of a wrongly accepted commit. stillAccepts re-runs the acceptor on the
// commit with every slot the reference does not count in its best round removed: if that is still
// accepted the threshold arithmetic itself is off ("threshold"); otherwise the class is the requirement
// the removed slots fail (type | height | blockid | signature | round | noslot | mixed). Generator labels are in the witness.
func failureLabel(in commitInput, t tally, stillAccepts func(stripped []*types.Vote) bool) string {
	stripped := make([]*types.Vote, len(in.Slots))
	label := ""
	for i, s := range t.Slots {
		v := in.Slots[i]
		if v == nil {
			continue
		}
		reason := s.Reason
		if s.Counted {
			if v.Round == t.Round {
				stripped[i] = v
				continue
			}
			reason = "round"
		}
		if label == "" {
			label = reason
		} else if label != reason {
			label = "mixed"
		}
	}
	if in.Scenario == "size" {
		return "size"
	}
	if stillAccepts(stripped) || label == "" {
		return "threshold"
	}
	return label
}

func witnessOf(in commitInput, vals []*val, t tally) map[string]interface{} {
	var slots []string
	for i, s := range in.Slots {
		line := fmt.Sprintf("%d: ", i)
		if i < len(vals) {
			line += fmt.Sprintf("power=%d ", vals[i].Power)
		}
		line += "[" + in.Labels[i] + "] " + shortVote(s)
		if i < len(t.Slots) {
			if t.Slots[i].Counted {
				line += " => counted"
			} else if s != nil {
				line += " => not counted (" + t.Slots[i].Reason + ")"
			}
		}
		slots = append(slots, line)
	}
	return map[string]interface{}{
		"scenario": in.Scenario, "commit_block_id": fmt.Sprintf("%x/%d/%x", in.CommitBID.Hash, in.CommitBID.PartsHeader.Total, in.CommitBID.PartsHeader.Hash), "chain_id": in.Chain, "height": in.H, "block_id": fmt.Sprintf("%x/%d/%x", in.B.Hash, in.B.PartsHeader.Total, in.B.PartsHeader.Hash),
		"total": t.Total.String(), "ref_tallied": t.Tallied.String(), "ref_round": t.Round, "ref_accepts": t.Accept, "well_formed": t.WellFormed,
		"threshold": thresholdClass(t.Tallied, t.Total), "three_tallied_minus_two_total": new(big.Int).Sub(new(big.Int).Mul(t.Tallied, big.NewInt(3)), new(big.Int).Mul(t.Total, big.NewInt(2))).String(), "distribution": in.Sp.Dist, "slots": slots,
	}
}

var blockExec = consensus.NewBlockExecutor(nil, log.Root(), nil)

// validateBlockWith wraps the commit as LastCommit of an otherwise valid block at height H+1.
func validateBlockWith(in commitInput, set *types.ValidatorSet, commit *types.Commit) (err error, skipped bool) {
	defer func() {
		if r := recover(); r != nil {
			err, skipped = fmt.Errorf("panic: %v", r), true
		}
	}()
	params := *types.DefaultConsensusParams()
	status := consensus.NewStatus{
		ChainID:         in.Chain,
		LastBlockHeight: in.H,
		LastBlockID:     in.B,
		Validators:      set,
		LastValidators:  set,
		LastRecover:     true,
		ConsensusParams: params,
	}
	blk := &types.Block{
		Header: &types.Header{
			ChainID:        in.Chain,
			Height:         in.H + 1,
			LastBlockID:    in.B,
			ValidatorsHash: common.BytesToHash(set.Hash()),
			ConsensusHash:  common.BytesToHash(params.Hash()),
		},
		Data:       &types.Data{},
		LastCommit: commit,
	}
	blk.LastCommitHash = commit.Hash() // may panic for unhashable votes: then the block cannot even be built
	blk.DataHash = blk.Data.Hash()
	blk.EvidenceHash = blk.Evidence.Hash()
	skipped = false
	func() {
		defer func() {
			if r := recover(); r != nil {
				err = fmt.Errorf("panic in ValidateBlock: %v", r)
			}
		}()
		err = blockExec.ValidateBlock(status, blk)
	}()
	return err, false
}

func runCommits(c *core.Ctx) {
	r := c.Rng
	n := genSize(r)
	vals := genKeys(r, n, 0.12)
	g := &commitGen{r: r, vals: vals, sg: newSigner(vals), chain: genChainID(r), B: genBlockID(r), R: []int{0, 0, 0, 1, 2, 7, 1 << 20}[r.Intn(7)]}
	g.H = uint64(2 + r.Intn(1000000))
	if r.Chance(0.1) {
		g.H = uint64(1)<<uint(20+r.Intn(42)) + uint64(r.Intn(1000))
	}
	g.base = voteSpec{Chain: g.chain, Height: g.H, Round: g.R, Type: types.VoteTypePrecommit, Block: g.B, Time: genTime(r)}
	g.ts = make([]int64, n)
	for i := range g.ts {
		g.ts[i] = int64(r.Intn(3000))
	}
	derived := 8
	if n > 20 {
		derived = 5
	}
	fpInteresting := false
	signBytesReported := false
	var sample map[string]interface{}
	for k := 0; k <= derived; k++ {
		in := g.derive(k)
		applyPowers(vals, in.Sp.Powers)
		set, err := realValSet(vals)
		if err != nil {
			c.Inconclusive("harness: " + err.Error())
			return
		}
		t := refTally(vals, in.Chain, in.B, in.H, in.Slots)

		// cross-check of the rebuilt sign-bytes against Vote.SignBytes (votes as they sit in the commit)
		for i, v := range in.Slots {
			if v == nil || (k > 0 && i > 2) {
				continue
			}
			c.Count("signbytes_crosschecks", 1)
			if got, want := string(v.SignBytes(in.Chain)), string(refSignBytes(in.Chain, v)); got != want {
				if !signBytesReported {
					c.Violation("signbytes/differs-from-canonical-format", fmt.Sprintf("Vote.SignBytes=%s, canonical format gives %s", got, want), map[string]interface{}{"vote": shortVote(v), "chain_id": in.Chain})
				}
				signBytesReported = true // keep going: the behavioural oracles below show what the difference lets through
			}
		}

		commit := &types.Commit{BlockID: in.CommitBID, Precommits: in.Slots}
		var verr error
		func() {
			defer func() {
				if rec := recover(); rec != nil {
					verr = fmt.Errorf("panic in VerifyCommit: %v", rec)
					c.Count("verifycommit_panics", 1)
				}
			}()
			verr = set.VerifyCommit(in.Chain, in.B, in.H, commit)
		}()
		c.Count("commits_checked", 1)
		c.Count("scenario:"+in.Scenario, 1)
		for i, s := range in.Slots {
			if s != nil || in.Labels[i] == "absent" {
				c.Count("slot:"+in.Labels[i], 1)
			}
		}
		tc := thresholdClass(t.Tallied, t.Total)
		if tc != "" {
			c.Count(fmt.Sprintf("threshold_%s_total_mod3=%d", tc, mod3(t.Total)), 1)
			fpInteresting = true
		}
		if t.Total.BitLen() >= 62 {
			c.Count("totals_of_62_bits", 1)
		}
		if t.Accept {
			c.Count("ref_accepts", 1)
		} else {
			c.Count("ref_rejects", 1)
		}
		if t.WellFormed {
			c.Count("wellformed_commits", 1)
		}
		if verr == nil {
			c.Count("verifycommit_accepts", 1)
		} else {
			c.Count("verifycommit_rejects", 1)
		}
		if verr == nil && !t.Accept {
			lab := failureLabel(in, t, func(st []*types.Vote) bool {
				return set.VerifyCommit(in.Chain, in.B, in.H, &types.Commit{BlockID: in.B, Precommits: st}) == nil
			})
			c.Violation("verifycommit/accepts-insufficient/"+lab,
				fmt.Sprintf("VerifyCommit accepted; reference tally %s of %s (3·tallied > 2·total is false), scenario %s", t.Tallied, t.Total, in.Scenario), witnessOf(in, vals, t))
			return
		}
		if verr != nil && t.Accept && t.WellFormed {
			c.Violation("verifycommit/rejects-sufficient-wellformed",
				fmt.Sprintf("VerifyCommit: %v; reference tally %s of %s accepts and every present vote is a correctly signed precommit of its slot", verr, t.Tallied, t.Total), witnessOf(in, vals, t))
			return
		}

		// call site: block validation of LastCommit
		if n <= 12 || k%3 == 0 {
			berr, skipped := validateBlockWith(in, set, &types.Commit{BlockID: in.CommitBID, Precommits: in.Slots})
			if skipped {
				c.Count("validateblock_unbuildable", 1)
			} else {
				c.Count("validateblock_calls", 1)
				if berr == nil {
					c.Count("validateblock_accepts", 1)
				} else {
					c.Count("validateblock_rejects", 1)
				}
				if berr == nil && !t.Accept {
					lab := failureLabel(in, t, func(st []*types.Vote) bool {
						e, sk := validateBlockWith(in, set, &types.Commit{BlockID: in.CommitBID, Precommits: st})
						return e == nil && !sk
					})
					c.Violation("validateblock/accepts-insufficient/"+lab,
						fmt.Sprintf("ValidateBlock accepted a block whose LastCommit has reference tally %s of %s", t.Tallied, t.Total), witnessOf(in, vals, t))
					return
				}
				if berr != nil && t.Accept && t.WellFormed {
					c.Violation("validateblock/rejects-sufficient-wellformed",
						fmt.Sprintf("ValidateBlock: %v; reference tally %s of %s accepts, commit well formed", berr, t.Tallied, t.Total), witnessOf(in, vals, t))
					return
				}
			}
		}

		// diagnostic only (VerifyCommitAny has no caller in the node): does the by-address variant count a validator twice?
		if k == 1 && n >= 3 {
			dup := make([]*types.Vote, n)
			for i := range dup {
				dup[i] = g.sg.vote(0, g.spec(0))
			}
			dt := refTally(vals, g.chain, g.B, g.H, dup)
			if err := set.VerifyCommitAny(g.chain, g.B, g.H, &types.Commit{BlockID: g.B, Precommits: dup}); err == nil && !dt.Accept {
				c.Count("diag_verifycommitany_counts_one_validator_many_times", 1)
			}
		}
		if c.Index%500 == 0 && k == 2 {
			sample = witnessOf(in, vals, t)
			sample["verifycommit_error"] = fmt.Sprint(verr)
			sample["part"] = "commit"
		}
	}
	c.Count("signatures_made", g.sg.nsig)
	if fpInteresting {
		c.Nontrivial(fmt.Sprintf("A%x", r.Uint64()))
	}
	if sample != nil {
		c.Sample(sample)
	}
}
