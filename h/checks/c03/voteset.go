package c03

// Part B: VoteSet histories against a shadow model updated per operation in arrival order.

import (
	"fmt"
	"math/big"
	"strings"

	"github.com/lianxiangcloud/linkchain/libs/crypto"
	"github.com/lianxiangcloud/linkchain/types"

	"verif/h/internal/core"
	"verif/h/internal/rng"
)

type hop struct {
	Kind  string // vote | peer
	Vote  *types.Vote
	Label string
	Peer  string
	Block types.BlockID
}

func (h hop) String() string {
	if h.Kind == "peer" {
		return fmt.Sprintf("SetPeerMaj23(%s, %s)", h.Peer, bshow(h.Block))
	}
	return "AddVote[" + h.Label + "] " + shortVote(h.Vote)
}

// bkey is the harness' own injective key of a block id; bshow a short form for messages.
func bkey(b types.BlockID) string {
	return fmt.Sprintf("%x/%d/%x", b.Hash[:], b.PartsHeader.Total, b.PartsHeader.Hash)
}

func bshow(b types.BlockID) string {
	if b.Hash == (types.BlockID{}).Hash && b.PartsHeader.Total == 0 && len(b.PartsHeader.Hash) == 0 {
		return "nil-block"
	}
	return fmt.Sprintf("%x../%d/%x..", b.Hash[:4], b.PartsHeader.Total, head(b.PartsHeader.Hash, 4))
}

// ---------------------------------------------------------------- shadow model

type vsModel struct {
	vals  []*val
	chain string
	H     uint64
	R     int
	typ   byte
	total *big.Int

	canon     []*types.Vote                  // the vote shown for each validator
	added     map[string]map[int]*types.Vote // block -> validator -> vote counted for that block
	peerClaim map[string]bool
	peers     map[string]types.BlockID
	maj       *types.BlockID
	delivered map[string]map[int]bool // block -> validators from which a valid vote for it was delivered at all
	validFrom [][]*types.Vote         // per validator: the valid votes delivered
}

func newModel(vals []*val, chain string, H uint64, R int, typ byte) *vsModel {
	return &vsModel{vals: vals, chain: chain, H: H, R: R, typ: typ, total: totalPower(vals),
		canon: make([]*types.Vote, len(vals)), added: map[string]map[int]*types.Vote{}, peerClaim: map[string]bool{},
		peers: map[string]types.BlockID{}, delivered: map[string]map[int]bool{}, validFrom: make([][]*types.Vote, len(vals))}
}

// defects lists what is wrong with a vote for this vote set (empty = admissible vote of validator ValidatorIndex).
func (m *vsModel) defects(v *types.Vote) []string {
	var d []string
	n := len(m.vals)
	idx := v.ValidatorIndex
	if idx < 0 || idx >= n {
		d = append(d, "index")
	}
	if len(v.ValidatorAddress) == 0 {
		d = append(d, "address")
	}
	if v.ValidatorSize != n {
		d = append(d, "size")
	}
	if v.Height != m.H || v.Round != m.R || v.Type != m.typ {
		d = append(d, "step")
	}
	if idx >= 0 && idx < n {
		if len(v.ValidatorAddress) != 0 && string(v.ValidatorAddress) != string(m.vals[idx].Addr) {
			d = append(d, "address")
		}
		if !refVerify(m.vals[idx], refSignBytes(m.chain, v), v.Signature) {
			d = append(d, "signature")
		}
	}
	return d
}

func (m *vsModel) known(idx int, key string) *types.Vote {
	if cv := m.canon[idx]; cv != nil && bkey(cv.BlockID) == key {
		return cv
	}
	return m.added[key][idx]
}

func (m *vsModel) power(set map[int]*types.Vote) *big.Int {
	s := new(big.Int)
	for i := range set {
		s.Add(s, big.NewInt(m.vals[i].Power))
	}
	return s
}

func (m *vsModel) sum() *big.Int {
	s := new(big.Int)
	for i, v := range m.canon {
		if v != nil {
			s.Add(s, big.NewInt(m.vals[i].Power))
		}
	}
	return s
}

func (m *vsModel) deliveredPower(key string) *big.Int {
	s := new(big.Int)
	for i := range m.delivered[key] {
		s.Add(s, big.NewInt(m.vals[i].Power))
	}
	return s
}

type expectation struct {
	Kind  string // invalid | duplicate | resigned | first | conflict
	Added bool
	Errs  map[string]bool // admissible error classes ("" = nil error)
}

// expect says what AddVote must return for v, and applies v to the model.
func (m *vsModel) expect(v *types.Vote) expectation {
	d := m.defects(v)
	if len(d) > 0 {
		e := expectation{Kind: "invalid", Errs: map[string]bool{}}
		for _, x := range d {
			e.Errs[x] = true
		}
		if len(d) == 1 && d[0] == "signature" {
			// all unauthenticated fields are right: the set may recognise (validator, block) before looking at the signature
			if ex := m.known(v.ValidatorIndex, bkey(v.BlockID)); ex != nil {
				if ex.Signature.Equals(v.Signature) {
					e.Errs = map[string]bool{"": true} // same signature as the stored vote: dropped as a duplicate
				} else {
					e.Errs["nondeterministic"] = true
				}
			}
		}
		return e
	}
	idx, key := v.ValidatorIndex, bkey(v.BlockID)
	if m.delivered[key] == nil {
		m.delivered[key] = map[int]bool{}
	}
	m.delivered[key][idx] = true
	m.validFrom[idx] = append(m.validFrom[idx], v)
	if ex := m.known(idx, key); ex != nil {
		if ex.Signature.Equals(v.Signature) {
			return expectation{Kind: "duplicate", Errs: map[string]bool{"": true}}
		}
		return expectation{Kind: "resigned", Errs: map[string]bool{"nondeterministic": true}}
	}
	conflicting := m.canon[idx] != nil
	if !conflicting {
		m.canon[idx] = v
	} else if m.maj != nil && bkey(*m.maj) == key {
		m.canon[idx] = v
	}
	if conflicting && !m.peerClaim[key] {
		return expectation{Kind: "conflict", Added: false, Errs: map[string]bool{"conflict": true}}
	}
	if m.added[key] == nil {
		m.added[key] = map[int]*types.Vote{}
	}
	m.added[key][idx] = v
	if m.maj == nil && moreThanTwoThirds(m.power(m.added[key]), m.total) {
		b := v.BlockID
		m.maj = &b
		for i, w := range m.added[key] {
			m.canon[i] = w
		}
	}
	if conflicting {
		return expectation{Kind: "conflict", Added: true, Errs: map[string]bool{"conflict": true}}
	}
	return expectation{Kind: "first", Added: true, Errs: map[string]bool{"": true}}
}

// setPeer returns whether SetPeerMaj23 must fail.
func (m *vsModel) setPeer(peer string, b types.BlockID) (mustFail bool) {
	if ex, ok := m.peers[peer]; ok {
		return !sameBlockID(ex, b)
	}
	m.peers[peer] = b
	m.peerClaim[bkey(b)] = true
	return false
}

// ---------------------------------------------------------------- error classes

func cause(err error) error {
	type causer interface{ Cause() error }
	for err != nil {
		c, ok := err.(causer)
		if !ok {
			break
		}
		err = c.Cause()
	}
	return err
}

func errClass(err error) string {
	if err == nil {
		return ""
	}
	if _, ok := err.(*types.ErrVoteConflictingVotes); ok {
		return "conflict"
	}
	switch cause(err) {
	case types.ErrVoteUnexpectedStep:
		return "step"
	case types.ErrVoteInvalidValidatorIndex:
		return "index"
	case types.ErrVoteInvalidValidatorSize:
		return "size"
	case types.ErrVoteInvalidValidatorAddress:
		return "address"
	case types.ErrVoteInvalidSignature:
		return "signature"
	case types.ErrVoteNonDeterministicSignature:
		return "nondeterministic"
	case types.ErrVoteNil:
		return "nil"
	}
	return "other:" + err.Error()
}

// ---------------------------------------------------------------- generator

var invalidVoteClasses = []string{
	"index-negative", "index-too-large", "index-of-other", "address-empty", "address-random", "address-of-other", "size-wrong",
	"height-wrong", "round-wrong", "type-wrong", "chain-wrong",
	"sig-flip", "sig-random", "sig-nil", "sig-type", "sig-of-other-validator",
	"sig-from-other-height", "sig-from-other-round", "sig-from-other-block", "sig-from-other-type", "sig-from-other-time",
}

type histGen struct {
	r    *rng.R
	vals []*val
	sg   *signer
	base voteSpec
}

func (g *histGen) spec(b types.BlockID, dtMs int64) voteSpec {
	sp := g.base
	sp.Block = b
	sp.Time = sp.Time.Add(timeMs(dtMs))
	return sp
}

func (g *histGen) invalid(i int, b types.BlockID, class string) *types.Vote {
	r := g.r
	n := len(g.vals)
	sp := g.spec(b, int64(i))
	if n == 1 && (class == "index-of-other" || class == "address-of-other" || class == "sig-of-other-validator") {
		class = "sig-flip"
	}
	other := func() int { return (i + 1 + r.Intn(n-1)) % n }
	v := g.sg.vote(i, sp)
	switch class {
	case "index-negative":
		v.ValidatorIndex = -1 - r.Intn(3)
	case "index-too-large":
		v.ValidatorIndex = n + r.Intn(3)
	case "index-of-other":
		v.ValidatorIndex = other()
	case "address-empty":
		v.ValidatorAddress = nil
	case "address-random":
		v.ValidatorAddress = crypto.Address(r.Bytes(20))
	case "address-of-other":
		v.ValidatorAddress = crypto.Address(append([]byte{}, g.vals[other()].Addr...))
	case "size-wrong":
		v.ValidatorSize = []int{0, n - 1, n + 1, -1}[r.Intn(4)]
	case "height-wrong":
		if r.Bool() || sp.Height < 3 {
			sp.Height++
		} else {
			sp.Height--
		}
		v = g.sg.vote(i, sp)
	case "round-wrong":
		sp.Round += 1 + r.Intn(2)
		v = g.sg.vote(i, sp)
	case "type-wrong":
		sp.Type ^= 3 // prevote <-> precommit
		v = g.sg.vote(i, sp)
	case "chain-wrong":
		sp.Chain = otherChainID(r, sp.Chain)
		v.Signature = g.sg.vote(i, sp).Signature
	case "sig-flip":
		v.Signature = flipSig(r, v.Signature)
	case "sig-random":
		if g.vals[i].Secp {
			v.Signature = crypto.SignatureSecp256k1FromBytes(r.Bytes(70))
		} else {
			v.Signature = crypto.SignatureEd25519FromBytes(r.Bytes(64))
		}
	case "sig-nil":
		v.Signature = nil
	case "sig-type":
		if g.vals[i].Secp {
			v.Signature = crypto.SignatureEd25519FromBytes(r.Bytes(64))
		} else {
			es := v.Signature.(crypto.SignatureEd25519)
			v.Signature = crypto.SignatureSecp256k1FromBytes(es[:])
		}
	case "sig-of-other-validator":
		v.Signature = g.sg.sign(other(), refSignBytes(g.base.Chain, v))
	case "sig-from-other-height":
		sp.Height++
		v.Signature = g.sg.vote(i, sp).Signature
	case "sig-from-other-round":
		sp.Round++
		v.Signature = g.sg.vote(i, sp).Signature
	case "sig-from-other-block":
		sp.Block = otherBlockID(r, b)
		v.Signature = g.sg.vote(i, sp).Signature
	case "sig-from-other-type":
		sp.Type ^= 3
		v.Signature = g.sg.vote(i, sp).Signature
	case "sig-from-other-time":
		sp.Time = sp.Time.Add(timeMs(int64(1 + r.Intn(5000))))
		v.Signature = g.sg.vote(i, sp).Signature
	default:
		panic("unknown invalid class " + class)
	}
	return v
}

// history builds the multiset of operations of one case.
func (g *histGen) history(sp split, small bool) (ops []hop, X types.BlockID) {
	r := g.r
	n := len(g.vals)
	X = genBlockID(r)
	Y := otherBlockID(r, X)
	Z := genBlockID(r)
	N := types.BlockID{}
	if r.Chance(0.07) {
		X, Y = N, X // the threshold block is the nil block
	}
	vote := func(i int, b types.BlockID, label string, dt int64) {
		ops = append(ops, hop{Kind: "vote", Vote: g.sg.vote(i, g.spec(b, dt)), Label: label})
	}
	pEquiv := []float64{0, 0.1, 0.3}[r.Intn(3)]
	pInvalid := []float64{0, 0.2, 0.5}[r.Intn(3)]
	for i := 0; i < n; i++ {
		if sp.InS[i] {
			vote(i, X, "valid:X", int64(i))
			if r.Chance(pEquiv) {
				vote(i, Y, "equivocation:Y", int64(i))
			}
			if r.Chance(0.08) {
				vote(i, X, "duplicate:X", int64(i))
			}
			if r.Chance(0.04) {
				vote(i, X, "resigned:X", int64(i)+77)
			}
			continue
		}
		switch x := r.Intn(100); {
		case x < 20:
		case x < 40:
			vote(i, Y, "valid:Y", int64(i))
		case x < 50:
			vote(i, N, "valid:nil", int64(i))
		case x < 65:
			vote(i, Y, "valid:Y", int64(i))
			vote(i, X, "equivocation:X", int64(i))
			if r.Chance(0.3) {
				vote(i, X, "equivocation-repeat:X", int64(i))
			}
		case x < 70:
			vote(i, Z, "valid:Z", int64(i))
			vote(i, Y, "equivocation:Y", int64(i))
			vote(i, X, "equivocation:X", int64(i))
		default:
			if pInvalid > 0 {
				cl := invalidVoteClasses[r.Intn(len(invalidVoteClasses))]
				ops = append(ops, hop{Kind: "vote", Vote: g.invalid(i, X, cl), Label: "invalid:" + cl})
			}
		}
	}
	for k := r.Intn(3); k > 0 && pInvalid > 0; k-- {
		i := r.Intn(n)
		cl := invalidVoteClasses[r.Intn(len(invalidVoteClasses))]
		ops = append(ops, hop{Kind: "vote", Vote: g.invalid(i, []types.BlockID{X, Y}[r.Intn(2)], cl), Label: "invalid:" + cl})
	}
	if r.Chance(0.55) {
		for k := r.Range(1, 3); k > 0; k-- {
			ops = append(ops, hop{Kind: "peer", Peer: fmt.Sprintf("peer%d", r.Intn(3)), Block: []types.BlockID{X, X, X, Y, Y, Z, N}[r.Intn(7)]})
		}
	}
	if small {
		// keep a small multiset for exhaustive ordering: drop random ops but keep at least the interesting ones
		max := 5
		if r.Chance(0.2) {
			max = 6
		}
		for len(ops) > max {
			k := r.Intn(len(ops))
			ops = append(ops[:k], ops[k+1:]...)
		}
	}
	return ops, X
}

// ---------------------------------------------------------------- run

type observed struct {
	c        *core.Ctx
	m        *vsModel
	vs       *types.VoteSet
	set      *types.ValidatorSet
	trace    []string
	firstMaj *types.BlockID
	blocks   []types.BlockID
	bad      bool
}

func (o *observed) fail(key, detail string) {
	if o.bad {
		return
	}
	o.bad = true
	var pw []string
	for i, v := range o.m.vals {
		pw = append(pw, fmt.Sprintf("%d:%d", i, v.Power))
	}
	o.c.Violation(key, detail, map[string]interface{}{"chain_id": o.m.chain, "height": o.m.H, "round": o.m.R, "type": o.m.typ,
		"powers": strings.Join(pw, " "), "total": o.m.total.String(), "history": o.trace})
}

func parseSum(s string) (int64, bool) {
	k := strings.LastIndex(s, "} ")
	if k < 0 {
		return 0, false
	}
	var a, b int64
	if _, err := fmt.Sscanf(s[k+2:], "%d/%d", &a, &b); err != nil {
		return 0, false
	}
	return a, true
}

// step applies one operation to the real vote set and to the model and compares.
func (o *observed) step(h hop) {
	c, m, vs := o.c, o.m, o.vs
	o.trace = append(o.trace, h.String())
	if h.Kind == "peer" {
		mustFail := m.setPeer(h.Peer, h.Block)
		err := vs.SetPeerMaj23(h.Peer, h.Block)
		c.Count("setpeermaj23_calls", 1)
		if (err != nil) != mustFail {
			o.fail("setpeermaj23/second-claim-handling", fmt.Sprintf("SetPeerMaj23 returned %v, a conflicting second claim of the same peer must fail and nothing else: expected failure=%v", err, mustFail))
		}
	} else {
		v := h.Vote
		exp := m.expect(v)
		added, err := vs.AddVote(v)
		cl := errClass(err)
		o.trace[len(o.trace)-1] += fmt.Sprintf("  -> added=%v err=%q (model: %s added=%v)", added, cl, exp.Kind, exp.Added)
		c.Count("addvote_calls", 1)
		c.Count("addvote_kind:"+exp.Kind, 1)
		c.Count("addvote_result:"+cl, 1)
		if strings.HasPrefix(h.Label, "invalid:") {
			c.Count("addvote_"+h.Label, 1)
		}
		switch exp.Kind {
		case "invalid":
			if added {
				o.fail("addvote/invalid-vote-added/"+defectKey(exp), fmt.Sprintf("AddVote returned added=true for a vote with defects %v", keys(exp.Errs)))
			} else if err == nil && !exp.Errs[""] {
				o.fail("addvote/invalid-vote-no-error/"+defectKey(exp), fmt.Sprintf("AddVote returned no error for a vote with defects %v", keys(exp.Errs)))
			} else if !exp.Errs[cl] {
				o.fail("addvote/error-class/"+defectKey(exp), fmt.Sprintf("AddVote error class %q for a vote with defects %v", cl, keys(exp.Errs)))
			}
		case "first":
			if !added || err != nil {
				o.fail("addvote/first-valid-vote-rejected", fmt.Sprintf("first correctly signed vote of validator %d: added=%v err=%v", v.ValidatorIndex, added, err))
			}
		case "duplicate":
			if added || err != nil {
				o.fail("addvote/duplicate-not-ignored", fmt.Sprintf("re-delivery of a stored vote: added=%v err=%v", added, err))
			}
		case "resigned":
			if added || err == nil {
				o.fail("addvote/second-signature-same-block", fmt.Sprintf("second, differently signed vote of validator %d for the same block: added=%v err=%v", v.ValidatorIndex, added, err))
			}
		case "conflict":
			c.Count("conflicts_delivered", 1)
			ev, ok := err.(*types.ErrVoteConflictingVotes)
			if !ok {
				o.fail("addvote/conflict-not-surfaced", fmt.Sprintf("validator %d voted for a second block; AddVote returned added=%v err=%v instead of ErrVoteConflictingVotes", v.ValidatorIndex, added, err))
				break
			}
			if added != exp.Added {
				o.fail("addvote/conflict-added-flag", fmt.Sprintf("conflicting vote: added=%v, expected %v (conflicting votes are kept only for a block a peer claimed +2/3 for)", added, exp.Added))
			}
			if added {
				c.Count("conflicts_added_under_peer_claim", 1)
			}
			okEv := ev.DuplicateVoteEvidence != nil && ev.VoteA != nil && ev.VoteB != nil && ev.PubKey != nil && ev.PubKey.Equals(m.vals[v.ValidatorIndex].Pub) &&
				ev.VoteA.ValidatorIndex == v.ValidatorIndex && ev.VoteB.ValidatorIndex == v.ValidatorIndex && !sameBlockID(ev.VoteA.BlockID, ev.VoteB.BlockID)
			if okEv {
				for _, w := range []*types.Vote{ev.VoteA, ev.VoteB} {
					if len(m.defects(w)) != 0 {
						okEv = false
					}
				}
			}
			if !okEv {
				o.fail("addvote/conflict-evidence-invalid", "the evidence carried by ErrVoteConflictingVotes is not two correctly signed votes of that validator for different blocks")
			} else {
				c.Count("evidence_checked", 1)
			}
		}
	}
	if o.bad {
		return
	}
	// observers
	mb, mok := vs.TwoThirdsMajority()
	if mok {
		key := bkey(mb)
		dp := m.deliveredPower(key)
		if !moreThanTwoThirds(dp, m.total) {
			o.fail("voteset/maj23-without-two-thirds", fmt.Sprintf("TwoThirdsMajority=%s but only %s of %s voting power delivered a correctly signed vote for it", bshow(mb), dp, m.total))
			return
		}
		if o.firstMaj == nil {
			b := mb
			o.firstMaj = &b
			c.Count("maj23_reached", 1)
			if tc := thresholdClass(dp, m.total); tc != "" {
				c.Count("maj23_at_"+tc, 1)
			}
		} else if !sameBlockID(*o.firstMaj, mb) {
			o.fail("voteset/maj23-changed", fmt.Sprintf("TwoThirdsMajority changed from %s to %s", bshow(*o.firstMaj), bshow(mb)))
			return
		}
	} else if o.firstMaj != nil {
		o.fail("voteset/maj23-changed", "TwoThirdsMajority disappeared")
		return
	}
	if mok != (m.maj != nil) || (mok && !sameBlockID(mb, *m.maj)) {
		want := "none"
		if m.maj != nil {
			want = bshow(*m.maj)
		}
		got := "none"
		if mok {
			got = bshow(mb)
		}
		o.fail("voteset/maj23-differs-from-model", fmt.Sprintf("TwoThirdsMajority=%s, the tally of counted votes gives %s", got, want))
		return
	}
	if vs.HasTwoThirdsMajority() != mok || vs.IsCommit() != (mok && m.typ == types.VoteTypePrecommit) {
		o.fail("voteset/maj23-accessors-disagree", "HasTwoThirdsMajority/IsCommit disagree with TwoThirdsMajority")
		return
	}
	msum := m.sum()
	if got, ok := parseSum(vs.BitArrayString()); ok {
		c.Count("sum_comparisons", 1)
		if big.NewInt(got).Cmp(msum) != 0 {
			o.fail("voteset/sum-mismatch", fmt.Sprintf("vote set sum=%d, power of validators with a counted vote=%s", got, msum))
			return
		}
	}
	if vs.HasTwoThirdsAny() != moreThanTwoThirds(msum, m.total) {
		o.fail("voteset/has-two-thirds-any", fmt.Sprintf("HasTwoThirdsAny=%v with sum %s of %s", vs.HasTwoThirdsAny(), msum, m.total))
		return
	}
	if vs.HasTwoThirdsAny() {
		c.Count("two_thirds_any_seen", 1)
	}
	if vs.HasAll() != (msum.Cmp(m.total) == 0) {
		o.fail("voteset/has-all", fmt.Sprintf("HasAll=%v with sum %s of %s", vs.HasAll(), msum, m.total))
		return
	}
	ba := vs.BitArray()
	for i := range m.vals {
		if ba.GetIndex(i) != (m.canon[i] != nil) {
			o.fail("voteset/bitarray-mismatch", fmt.Sprintf("BitArray bit %d = %v", i, ba.GetIndex(i)))
			return
		}
	}
	for _, b := range o.blocks {
		bb := vs.BitArrayByBlockID(b)
		for i := range m.vals {
			has := bb != nil && bb.GetIndex(i)
			_, want := m.added[bkey(b)][i]
			if has != want {
				o.fail("voteset/block-bitarray-mismatch", fmt.Sprintf("BitArrayByBlockID(%s) bit %d = %v, model %v", bshow(b), i, has, want))
				return
			}
		}
	}
}

func keys(m map[string]bool) []string {
	var out []string
	for _, k := range []string{"", "index", "address", "size", "step", "signature", "nondeterministic", "conflict"} {
		if m[k] {
			if k == "" {
				k = "(none)"
			}
			out = append(out, k)
		}
	}
	return out
}

func defectKey(e expectation) string {
	for _, k := range []string{"index", "address", "size", "step", "signature"} {
		if e.Errs[k] {
			return k
		}
	}
	return "signature"
}

// finish checks MakeCommit against the reference tally and VerifyCommit.
func (o *observed) finish() {
	if o.bad || o.m.typ != types.VoteTypePrecommit {
		return
	}
	mb, ok := o.vs.TwoThirdsMajority()
	if !ok {
		return
	}
	commit := o.vs.MakeCommit()
	o.c.Count("makecommit_checked", 1)
	t := refTally(o.m.vals, o.m.chain, mb, o.m.H, commit.Precommits)
	if !sameBlockID(commit.BlockID, mb) {
		o.fail("makecommit/wrong-block-id", "MakeCommit().BlockID differs from TwoThirdsMajority")
		return
	}
	if !t.Accept {
		o.fail("makecommit/fails-reference-tally", fmt.Sprintf("MakeCommit for %s: reference tally %s of %s", bshow(mb), t.Tallied, t.Total))
		return
	}
	if !t.WellFormed {
		o.fail("makecommit/malformed", "MakeCommit contains a slot that is not a correctly signed precommit of that validator at this height and round")
		return
	}
	if err := o.set.VerifyCommit(o.m.chain, mb, o.m.H, commit); err != nil {
		o.fail("makecommit/rejected-by-verifycommit", fmt.Sprintf("VerifyCommit rejects the commit produced by MakeCommit: %v", err))
	}
}

func runHistory(c *core.Ctx) {
	r := c.Rng
	exhaustive := r.Chance(0.15)
	n := genSize(r)
	if exhaustive {
		n = r.Range(1, 4)
	} else if n > 24 {
		n = r.Range(1, 24)
	}
	vals := genKeys(r, n, 0.1)
	sp := genSplit(r, n)
	applyPowers(vals, sp.Powers)
	set, err := realValSet(vals)
	if err != nil {
		c.Inconclusive("harness: " + err.Error())
		return
	}
	typ := types.VoteTypePrecommit
	if r.Chance(0.25) {
		typ = types.VoteTypePrevote
	}
	g := &histGen{r: r, vals: vals, sg: newSigner(vals)}
	g.base = voteSpec{Chain: genChainID(r), Height: uint64(1 + r.Intn(1000000)), Round: []int{0, 0, 1, 3}[r.Intn(4)], Type: typ, Time: genTime(r)}
	ops, X := g.history(sp, exhaustive)
	if len(ops) == 0 {
		c.Count("empty_histories", 1)
		return
	}
	blocks := []types.BlockID{X}
	seenB := map[string]bool{bkey(X): true}
	for _, h := range ops {
		b := h.Block
		if h.Kind == "vote" {
			b = h.Vote.BlockID
		}
		if !seenB[bkey(b)] {
			seenB[bkey(b)] = true
			blocks = append(blocks, b)
		}
	}
	runOrder := func(order []int) bool {
		o := &observed{c: c, m: newModel(vals, g.base.Chain, g.base.Height, g.base.Round, typ), set: set, blocks: blocks}
		o.vs = types.NewVoteSet(g.base.Chain, g.base.Height, g.base.Round, typ, set)
		for _, k := range order {
			o.step(ops[k])
			if o.bad {
				return false
			}
		}
		o.finish()
		c.Count("orders_run", 1)
		if !o.bad {
			// where the threshold block ended up: proves histories end on both sides of the boundary
			dp := o.m.deliveredPower(bkey(X))
			if tc := thresholdClass(dp, o.m.total); tc != "" {
				c.Count("history_end_thresholdblock_at_"+tc, 1)
			}
			if o.firstMaj == nil {
				c.Count("history_end_without_maj23", 1)
			}
		}
		return !o.bad
	}
	if exhaustive {
		c.Count("exhaustive_histories", 1)
		perm := make([]int, len(ops))
		for i := range perm {
			perm[i] = i
		}
		for {
			if !runOrder(perm) {
				return
			}
			if !nextPerm(perm) {
				break
			}
		}
	} else {
		order := r.Perm(len(ops))
		if r.Chance(0.3) {
			// votes for the threshold block last: conflicts and peer claims get in first
			var early, late []int
			for _, k := range order {
				if ops[k].Kind == "vote" && sameBlockID(ops[k].Vote.BlockID, X) {
					late = append(late, k)
				} else {
					early = append(early, k)
				}
			}
			order = append(early, late...)
		}
		if !runOrder(order) {
			return
		}
	}
	c.Nontrivial(fmt.Sprintf("B%x", r.Uint64()))
	if c.Index%500 == 5 {
		var hs []string
		for i, h := range ops {
			if i >= 10 {
				break
			}
			hs = append(hs, h.String())
		}
		c.Sample(map[string]interface{}{"part": "voteset-history", "validators": n, "distribution": sp.Dist, "delta_3s_minus_2t": sp.Delta, "exhaustive_orders": exhaustive, "ops": hs})
	}
}

// nextPerm advances p to the next permutation in lexicographic order.
func nextPerm(p []int) bool {
	i := len(p) - 2
	for i >= 0 && p[i] >= p[i+1] {
		i--
	}
	if i < 0 {
		return false
	}
	j := len(p) - 1
	for p[j] <= p[i] {
		j--
	}
	p[i], p[j] = p[j], p[i]
	for a, b := i+1, len(p)-1; a < b; a, b = a+1, b-1 {
		p[a], p[b] = p[b], p[a]
	}
	return true
}
