package c03

// Reference side of the C03 check: everything in this file is the harness' own
// arithmetic and never calls the tally / admission code of /repo/types.
//
//   * refSignBytes   – the canonical vote sign-bytes, rebuilt from the documented format
//   * refVerify      – signature verification with the raw key material (crypto/ed25519, btcec)
//   * refTally       – the commit tally of the property (big.Int, 3·tallied > 2·total)

import (
	"bytes"
	"crypto/ed25519"
	"crypto/sha256"
	"encoding/hex"
	"encoding/json"
	"fmt"
	"math/big"
	"strconv"
	"strings"
	"time"

	secp256k1 "github.com/btcsuite/btcd/btcec"

	"github.com/lianxiangcloud/linkchain/libs/crypto"
	"github.com/lianxiangcloud/linkchain/types"
)

// val is one validator as the harness knows it.
type val struct {
	Priv  crypto.PrivKey
	Pub   crypto.PubKey
	Addr  []byte
	Power int64
	Secp  bool
}

// refSignBytes rebuilds the canonical JSON a validator signs for a vote:
//
//	{"@chain_id":<json string>,"@type":"vote","block_id":{["hash":"0x<64 hex>"][,"parts":{["hash":"<HEX>"][,"total":"<n>"]}]},
//	 "height":"<n>","round":"<n>","timestamp":"<UTC, ms>","type":<n>}
//
// fields in alphabetical order, 64-bit integers as decimal strings, empty members of block_id omitted.
func refSignBytes(chainID string, v *types.Vote) []byte {
	var b bytes.Buffer
	cid, _ := json.Marshal(chainID)
	b.WriteString(`{"@chain_id":`)
	b.Write(cid)
	b.WriteString(`,"@type":"vote","block_id":{`)
	wrote := false
	zeroHash := true
	for _, x := range v.BlockID.Hash {
		if x != 0 {
			zeroHash = false
		}
	}
	if !zeroHash {
		b.WriteString(`"hash":"0x` + hex.EncodeToString(v.BlockID.Hash[:]) + `"`)
		wrote = true
	}
	ph := v.BlockID.PartsHeader
	if !(ph.Hash == nil && ph.Total == 0) {
		if wrote {
			b.WriteString(",")
		}
		b.WriteString(`"parts":{`)
		w2 := false
		if len(ph.Hash) > 0 {
			b.WriteString(`"hash":"` + strings.ToUpper(hex.EncodeToString(ph.Hash)) + `"`)
			w2 = true
		}
		if ph.Total != 0 {
			if w2 {
				b.WriteString(",")
			}
			b.WriteString(`"total":"` + strconv.Itoa(ph.Total) + `"`)
		}
		b.WriteString("}")
	}
	b.WriteString(`},"height":"` + strconv.FormatUint(v.Height, 10) + `"`)
	b.WriteString(`,"round":"` + strconv.Itoa(v.Round) + `"`)
	b.WriteString(`,"timestamp":"` + v.Timestamp.UTC().Format("2006-01-02T15:04:05.000Z") + `"`)
	b.WriteString(`,"type":` + strconv.Itoa(int(v.Type)) + `}`)
	return b.Bytes()
}

// refSign signs msg with the raw key (no repo code for ed25519).
func refSign(v *val, msg []byte) crypto.Signature {
	if !v.Secp {
		k := v.Priv.(crypto.PrivKeyEd25519)
		return crypto.SignatureEd25519FromBytes(ed25519.Sign(ed25519.PrivateKey(k[:]), msg))
	}
	s, err := v.Priv.Sign(msg)
	if err != nil {
		panic(err)
	}
	return s
}

// refVerify verifies sig over msg with the validator's raw public key.
func refVerify(v *val, msg []byte, sig crypto.Signature) bool {
	if sig == nil {
		return false
	}
	if !v.Secp {
		s, ok := sig.(crypto.SignatureEd25519)
		if !ok {
			return false
		}
		pk := v.Pub.(crypto.PubKeyEd25519)
		return ed25519.Verify(ed25519.PublicKey(pk[:]), msg, s[:])
	}
	s, ok := sig.(crypto.SignatureSecp256k1)
	if !ok {
		return false
	}
	pk := v.Pub.(crypto.PubKeySecp256k1)
	pub, err := secp256k1.ParsePubKey(pk[:], secp256k1.S256())
	if err != nil {
		return false
	}
	ps, err := secp256k1.ParseDERSignature(s[:], secp256k1.S256())
	if err != nil {
		return false
	}
	h := sha256.Sum256(msg)
	return ps.Verify(h[:], pub)
}

func sameBlockID(a, b types.BlockID) bool {
	return a.Hash == b.Hash && a.PartsHeader.Total == b.PartsHeader.Total && bytes.Equal(a.PartsHeader.Hash, b.PartsHeader.Hash)
}

func totalPower(vals []*val) *big.Int {
	t := new(big.Int)
	for _, v := range vals {
		t.Add(t, big.NewInt(v.Power))
	}
	return t
}

// moreThanTwoThirds: 3·x > 2·total.
func moreThanTwoThirds(x, total *big.Int) bool {
	l := new(big.Int).Mul(x, big.NewInt(3))
	r := new(big.Int).Mul(total, big.NewInt(2))
	return l.Cmp(r) > 0
}

type slotVerdict struct {
	Counted bool
	Reason  string // why a non-nil slot was not counted: type | height | blockid | signature ; "" if counted or nil
}

type tally struct {
	Accept     bool
	Tallied    *big.Int // best round
	Total      *big.Int
	Round      int
	WellFormed bool // every non-nil slot: precommit, height H, one common round, signature of the slot's validator, index/address of the slot; size matches
	Slots      []slotVerdict
	Uncounted  int // non-nil slots that do not count for B
}

// refTally is the property's tally: slot i belongs to validator i; a slot counts iff it holds a
// precommit for exactly B at height H whose signature verifies under validator i's key over the
// sign-bytes rebuilt for chainID; power is summed per round; accepted iff some round has 3·sum > 2·total.
func refTally(vals []*val, chainID string, B types.BlockID, H uint64, slots []*types.Vote) tally {
	t := tally{Total: totalPower(vals), Tallied: new(big.Int), WellFormed: len(slots) == len(vals), Slots: make([]slotVerdict, len(slots))}
	perRound := map[int]*big.Int{}
	var rounds []int
	commonRound, haveRound := 0, false
	for i, p := range slots {
		if p == nil {
			continue
		}
		if i >= len(vals) {
			t.Slots[i].Reason = "noslot"
			t.Uncounted++
			continue
		}
		v := vals[i]
		if !haveRound {
			commonRound, haveRound = p.Round, true
		} else if p.Round != commonRound {
			t.WellFormed = false
		}
		if p.ValidatorIndex != i || !bytes.Equal(p.ValidatorAddress, v.Addr) {
			t.WellFormed = false
		}
		sigOK := refVerify(v, refSignBytes(chainID, p), p.Signature)
		if p.Type != types.VoteTypePrecommit || p.Height != H || !sigOK {
			t.WellFormed = false
		}
		switch {
		case p.Type != types.VoteTypePrecommit:
			t.Slots[i].Reason = "type"
		case p.Height != H:
			t.Slots[i].Reason = "height"
		case !sameBlockID(p.BlockID, B):
			t.Slots[i].Reason = "blockid"
		case !sigOK:
			t.Slots[i].Reason = "signature"
		default:
			t.Slots[i].Counted = true
			if perRound[p.Round] == nil {
				perRound[p.Round] = new(big.Int)
				rounds = append(rounds, p.Round)
			}
			perRound[p.Round].Add(perRound[p.Round], big.NewInt(v.Power))
		}
		if !t.Slots[i].Counted {
			t.Uncounted++
		}
	}
	for _, r := range rounds {
		if perRound[r].Cmp(t.Tallied) > 0 {
			t.Tallied, t.Round = perRound[r], r
		}
	}
	t.Accept = moreThanTwoThirds(t.Tallied, t.Total)
	return t
}

// thresholdClass names where tallied sits relative to floor(2·total/3): "", "floor-1", "floor", "floor+1".
func thresholdClass(tallied, total *big.Int) string {
	f := new(big.Int).Mul(total, big.NewInt(2))
	f.Div(f, big.NewInt(3))
	d := new(big.Int).Sub(tallied, f)
	if !d.IsInt64() {
		return ""
	}
	switch d.Int64() {
	case -1:
		return "floor-1"
	case 0:
		return "floor"
	case 1:
		return "floor+1"
	}
	return ""
}

func mod3(total *big.Int) int {
	return int(new(big.Int).Mod(total, big.NewInt(3)).Int64())
}

func shortVote(v *types.Vote) string {
	if v == nil {
		return "nil"
	}
	sig := "nosig"
	if v.Signature != nil {
		b := v.Signature.Bytes()
		if len(b) > 10 {
			b = b[len(b)-6:]
		}
		sig = hex.EncodeToString(b)
	}
	return fmt.Sprintf("idx=%d addr=%x size=%d H=%d R=%d T=%d blk=%x/%d/%x ts=%s sig..%s", v.ValidatorIndex, head(v.ValidatorAddress, 4), v.ValidatorSize,
		v.Height, v.Round, v.Type, v.BlockID.Hash[:3], v.BlockID.PartsHeader.Total, head(v.BlockID.PartsHeader.Hash, 3), v.Timestamp.UTC().Format(time.RFC3339Nano), sig)
}

func head(b []byte, n int) []byte {
	if len(b) > n {
		return b[:n]
	}
	return b
}
