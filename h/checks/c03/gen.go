package c03

import (
	"bytes"
	"fmt"
	"sort"
	"time"

	"github.com/lianxiangcloud/linkchain/libs/common"
	"github.com/lianxiangcloud/linkchain/libs/crypto"
	"github.com/lianxiangcloud/linkchain/types"

	"verif/h/internal/rng"
)

const maxTotal = int64(1)<<62 - 1

// genKeys returns n validators with real keys, sorted by address (the order ValidatorSet uses); power unset.
func genKeys(r *rng.R, n int, secpShare float64) []*val {
	vals := make([]*val, 0, n)
	seen := map[string]bool{}
	for len(vals) < n {
		secret := r.Bytes(32)
		v := &val{}
		if r.Chance(secpShare) {
			v.Secp = true
			v.Priv = crypto.GenPrivKeySecp256k1FromSecret(secret)
		} else {
			v.Priv = crypto.GenPrivKeyEd25519FromSecret(secret)
		}
		v.Pub = v.Priv.PubKey()
		v.Addr = []byte(v.Pub.Address())
		if seen[string(v.Addr)] {
			continue
		}
		seen[string(v.Addr)] = true
		vals = append(vals, v)
	}
	sort.Slice(vals, func(i, j int) bool { return bytes.Compare(vals[i].Addr, vals[j].Addr) < 0 })
	return vals
}

func genSize(r *rng.R) int {
	switch x := r.Intn(100); {
	case x < 8:
		return 1
	case x < 45:
		return r.Range(2, 7)
	case x < 80:
		return r.Range(8, 20)
	default:
		return r.Range(21, 40)
	}
}

// genPowers draws n powers >= 1 from a named distribution with sum <= limit.
func genPowers(r *rng.R, n int, limit int64) ([]int64, string) {
	p := make([]int64, n)
	per := limit / int64(n)
	if per < 1 {
		per = 1
	}
	name := ""
	switch r.Intn(7) {
	case 0:
		name = "equal-small"
		x := int64([]int{1, 1, 2, 3, 10, 100}[r.Intn(6)])
		for i := range p {
			p[i] = x
		}
	case 1:
		name = "equal-large"
		x := 1 + r.Int63()%per
		for i := range p {
			p[i] = x
		}
	case 2:
		name = "geometric"
		base := int64(1 + r.Intn(3))
		ratio := int64(2 + r.Intn(2))
		x := base
		for i := range p {
			p[i] = x
			if x < per/ratio/2 {
				x *= ratio
			}
		}
		perm := r.Perm(n)
		q := make([]int64, n)
		for i, j := range perm {
			q[i] = p[j]
		}
		p = q
	case 3:
		name = "whale"
		for i := range p {
			p[i] = int64(1 + r.Intn(10))
		}
		var rest int64
		w := r.Intn(n)
		for i := range p {
			if i != w {
				rest += p[i]
			}
		}
		switch r.Intn(4) {
		case 0:
			p[w] = rest / 2 // about one third
		case 1:
			p[w] = 2 * rest // exactly two thirds
		case 2:
			p[w] = 2*rest + 1
		default:
			p[w] = rest * int64(1+r.Intn(1000))
		}
		if p[w] < 1 {
			p[w] = 1
		}
	case 4:
		name = "uniform-small"
		for i := range p {
			p[i] = int64(1 + r.Intn(10))
		}
	case 5:
		name = "log-uniform"
		for i := range p {
			bits := uint(r.Intn(56))
			p[i] = 1 + r.Int63()%(int64(1)<<bits+1)
			if p[i] > per {
				p[i] = 1 + p[i]%per
			}
		}
	default:
		name = "near-max"
		for i := range p {
			p[i] = per - int64(r.Intn(1000))
			if p[i] < 1 {
				p[i] = 1
			}
		}
	}
	var sum int64
	for i := range p {
		if p[i] > per {
			p[i] = per
		}
		if p[i] < 1 {
			p[i] = 1
		}
		sum += p[i]
	}
	_ = sum
	return p, name
}

// split is a partition of the validators into S (will sign exactly B correctly) and O (everything else),
// with the powers adjusted so that power(S) = 2·power(O) + delta, i.e. 3·power(S) − 2·total = delta:
// delta >= 1 is just above two thirds, delta <= 0 at or just below.
type split struct {
	Powers []int64
	InS    []bool
	Delta  int64
	Dist   string
	Fixed  bool // threshold placement applied
}

// sitOnThreshold adjusts one power in S (and, for exactTotal, one in O) so the split sits delta away from two thirds.
func sitOnThreshold(r *rng.R, n int, delta int64, exactTotal int64) split {
	limit := maxTotal / 4
	if r.Chance(0.5) {
		limit = int64(1) << uint(8+r.Intn(40))
		if limit < int64(n)*4 {
			limit = int64(n) * 4
		}
	}
	p, dist := genPowers(r, n, limit)
	inS := make([]bool, n)
	for i := range inS {
		inS[i] = r.Chance(0.65)
	}
	j := r.Intn(n)
	inS[j] = true
	if n == 1 {
		if delta < 1 {
			delta = 1
		}
		x := delta
		if exactTotal > 0 {
			x = exactTotal
			delta = x
		}
		return split{Powers: []int64{x}, InS: inS, Delta: delta, Dist: dist, Fixed: true}
	}
	// make sure O is not empty
	hasO := false
	for i := range inS {
		if !inS[i] {
			hasO = true
		}
	}
	if !hasO {
		k := (j + 1 + r.Intn(n-1)) % n
		inS[k] = false
	}
	if exactTotal > 0 {
		// total = 3·o + delta  =>  o = (total − delta)/3 ; delta must match total mod 3
		for (exactTotal-delta)%3 != 0 {
			delta--
		}
		o := (exactTotal - delta) / 3
		// shrink the random powers so they leave room
		for i := range p {
			p[i] = 1 + p[i]%(1<<30)
		}
		var k = -1
		for i := range inS {
			if !inS[i] {
				k = i
				break
			}
		}
		var oRest, sRest int64
		for i := range p {
			if i == k || i == j {
				continue
			}
			if inS[i] {
				sRest += p[i]
			} else {
				oRest += p[i]
			}
		}
		p[k] = o - oRest
		p[j] = 2*o + delta - sRest
		return split{Powers: p, InS: inS, Delta: delta, Dist: "exact-total", Fixed: true}
	}
	for iter := 0; ; iter++ {
		var o, sRest int64
		for i := range p {
			if i == j {
				continue
			}
			if inS[i] {
				sRest += p[i]
			} else {
				o += p[i]
			}
		}
		x := 2*o + delta - sRest
		if x >= 1 {
			p[j] = x
			break
		}
		// move one member of S\{j} to O, or grow O if S has no other member
		var cand []int
		for i := range inS {
			if inS[i] && i != j {
				cand = append(cand, i)
			}
		}
		if len(cand) > 0 {
			inS[cand[r.Intn(len(cand))]] = false
		} else {
			for i := range inS {
				if !inS[i] {
					p[i] += 3
					break
				}
			}
		}
		if iter > 200 {
			panic("sitOnThreshold does not converge")
		}
	}
	return split{Powers: p, InS: inS, Delta: delta, Dist: dist, Fixed: true}
}

func randomSplit(r *rng.R, n int) split {
	limit := maxTotal
	if r.Chance(0.6) {
		limit = int64(1) << uint(8+r.Intn(50))
		if limit < int64(n)*4 {
			limit = int64(n) * 4
		}
	}
	p, dist := genPowers(r, n, limit)
	inS := make([]bool, n)
	q := []float64{0.3, 0.5, 0.67, 0.8, 1}[r.Intn(5)]
	for i := range inS {
		inS[i] = r.Chance(q)
	}
	return split{Powers: p, InS: inS, Dist: dist}
}

// genSplit: mostly threshold placements, sometimes an exact large total, sometimes unconstrained.
func genSplit(r *rng.R, n int) split {
	switch x := r.Intn(100); {
	case x < 8:
		// untouched equal powers, the signing subset has floor(2n/3) or floor(2n/3)+1 members
		p := int64([]int{1, 1, 3, 10, 1000}[r.Intn(5)])
		if r.Chance(0.3) {
			p = 1 + r.Int63()%(maxTotal/int64(n))
		}
		k := 2*n/3 + r.Intn(2)
		sp := split{Powers: make([]int64, n), InS: make([]bool, n), Dist: "equal-untouched"}
		for i, j := range r.Perm(n) {
			sp.Powers[i] = p
			sp.InS[j] = i < k
		}
		return sp
	case x < 62:
		return sitOnThreshold(r, n, int64(r.Range(-5, 3)), 0)
	case x < 80:
		tot := maxTotal - int64(r.Intn(3))
		if r.Chance(0.3) {
			tot = maxTotal - int64(r.Intn(1<<20))
		}
		return sitOnThreshold(r, n, int64(r.Range(-5, 3)), tot)
	default:
		return randomSplit(r, n)
	}
}

func applyPowers(vals []*val, p []int64) {
	for i, v := range vals {
		v.Power = p[i]
	}
}

// realValSet builds the repository's ValidatorSet for vals and checks that its order is the harness' order.
func realValSet(vals []*val) (*types.ValidatorSet, error) {
	vs := make([]*types.Validator, len(vals))
	for i, v := range vals {
		vs[i] = types.NewValidator(v.Pub, common.EmptyAddress, v.Power)
	}
	set := types.NewValidatorSet(vs)
	if set.Size() != len(vals) {
		return nil, fmt.Errorf("validator set size %d != %d", set.Size(), len(vals))
	}
	for i, v := range vals {
		if !bytes.Equal(set.Validators[i].Address, v.Addr) || set.Validators[i].VotingPower != v.Power {
			return nil, fmt.Errorf("validator %d differs between harness and ValidatorSet", i)
		}
	}
	return set, nil
}

func genBlockID(r *rng.R) types.BlockID {
	b := types.BlockID{Hash: common.BytesToHash(r.Bytes(32))}
	switch x := r.Intn(10); {
	case x < 7:
		b.PartsHeader = types.PartSetHeader{Total: r.Range(1, 6), Hash: r.Bytes(32)}
	case x < 8:
		b.PartsHeader = types.PartSetHeader{Total: r.Range(1, 1000), Hash: r.Bytes(20)}
	case x < 9:
		b.PartsHeader = types.PartSetHeader{Total: 1, Hash: r.Bytes(1)}
	default:
		b.PartsHeader = types.PartSetHeader{Total: r.Range(1, 3), Hash: r.Bytes(32)}
		b.Hash[0] = 0
	}
	return b
}

// otherBlockID returns a block id different from b: unrelated, or differing in exactly one component.
func otherBlockID(r *rng.R, b types.BlockID) types.BlockID {
	o := types.BlockID{Hash: b.Hash, PartsHeader: types.PartSetHeader{Total: b.PartsHeader.Total, Hash: append([]byte{}, b.PartsHeader.Hash...)}}
	switch r.Intn(5) {
	case 0:
		return genBlockID(r)
	case 1:
		o.Hash[r.Intn(32)] ^= byte(1 << uint(r.Intn(8)))
	case 2:
		o.PartsHeader.Total++
	case 3:
		if len(o.PartsHeader.Hash) > 0 {
			o.PartsHeader.Hash[r.Intn(len(o.PartsHeader.Hash))] ^= byte(1 << uint(r.Intn(8)))
		} else {
			o.PartsHeader.Hash = []byte{1}
		}
	default:
		o.Hash[31] ^= 0x80
		o.PartsHeader.Total += 2
	}
	return o
}

func genChainID(r *rng.R) string {
	base := []string{"linkchain", "chain-A", "test_chain_1", "c", "lk-\"q\"", "链", "chain<1>&", "x y"}[r.Intn(8)]
	if r.Chance(0.5) {
		base += fmt.Sprintf("-%d", r.Intn(1000))
	}
	return base
}

func otherChainID(r *rng.R, c string) string {
	switch r.Intn(5) {
	case 0:
		return c + "x"
	case 1:
		return ""
	case 2:
		return c[:len(c)-1]
	case 3:
		return "X" + c
	default:
		return c + " "
	}
}

func genTime(r *rng.R) time.Time {
	return time.Unix(1500000000+int64(r.Intn(100000000)), int64(r.Intn(1000))*1000000).UTC()
}

// signer builds and signs votes; signatures are produced from refSignBytes with the raw keys and cached.
type signer struct {
	vals  []*val
	cache map[string]crypto.Signature
	nsig  int64
}

func newSigner(vals []*val) *signer { return &signer{vals: vals, cache: map[string]crypto.Signature{}} }

func (s *signer) sign(i int, msg []byte) crypto.Signature {
	k := string(append([]byte{byte(i), byte(i >> 8)}, msg...))
	if sig, ok := s.cache[k]; ok {
		return sig
	}
	sig := refSign(s.vals[i], msg)
	s.cache[k] = sig
	s.nsig++
	return sig
}

type voteSpec struct {
	Chain  string
	Height uint64
	Round  int
	Type   byte
	Block  types.BlockID
	Time   time.Time
}

// vote returns validator i's correctly signed vote for spec (index, address, size filled in correctly).
func (s *signer) vote(i int, sp voteSpec) *types.Vote {
	v := &types.Vote{
		ValidatorAddress: crypto.Address(append([]byte{}, s.vals[i].Addr...)),
		ValidatorIndex:   i,
		ValidatorSize:    len(s.vals),
		Height:           sp.Height,
		Round:            sp.Round,
		Timestamp:        sp.Time,
		Type:             sp.Type,
		BlockID:          sp.Block,
	}
	v.Signature = s.sign(i, refSignBytes(sp.Chain, v))
	return v
}

func flipSig(r *rng.R, sig crypto.Signature) crypto.Signature {
	switch s := sig.(type) {
	case crypto.SignatureEd25519:
		t := s
		t[r.Intn(len(t))] ^= byte(1 << uint(r.Intn(8)))
		return t
	case crypto.SignatureSecp256k1:
		t := append(crypto.SignatureSecp256k1{}, s...)
		t[r.Intn(len(t))] ^= byte(1 << uint(r.Intn(8)))
		return t
	}
	return sig
}
