// Package c03: only more than two thirds of the voting power, correctly signed for that exact
// block, makes a commit (DESIGN.md §5 C03).
package c03

import (
	"time"

	"verif/h/internal/core"
)

func timeMs(ms int64) time.Duration { return time.Duration(ms) * time.Millisecond }
func timeNs(ns int64) time.Duration { return time.Duration(ns) }

func init() {
	core.Register(&core.Check{
		ID:        "C03",
		Level:     "exploration",
		Technique: "differential monitoring of the real commit verification and vote-set code against an independent tally (own sign-bytes, raw-key signature checks, big.Int threshold) and a per-operation shadow model of VoteSet",
		Rule: "three kinds of case, chosen by case index. (A) commits: one key set of 1..40 validators (ed25519 + some secp256k1), 6..9 (power assignment, commit) pairs built by mutation of the fully signed commit: " +
			"powers from 7 distributions re-fitted so the correctly signing subset sits at 3·s − 2·total ∈ [−7,3] (incl. totals of exactly 2^62−1), every other slot one of 19 defect classes; " +
			"VerifyCommit and BlockExecutor.ValidateBlock (commit as LastCommit of an otherwise valid block) must accept only if the reference tally accepts, and must accept well-formed commits the reference accepts. " +
			"(B) VoteSet histories: multisets of valid / equivocating / duplicate / re-signed / 21 kinds of invalid votes and SetPeerMaj23 claims, all orders for <=4 validators and <=6 operations, random or conflict-first orders otherwise; " +
			"after every operation the AddVote result, TwoThirdsMajority, sum, HasTwoThirdsAny, HasAll, bit arrays are compared with the model and MakeCommit is re-tallied. " +
			"(C) MultiSignAccountTx.VerifySign against the same tally. " +
			"non-trivial = (A) at least one commit of the case has its reference tally within one unit of floor(2·total/3); (B) the history ran to its end with >=1 operation; (C) the tx was judged; distinct by hash of the case's random stream",
		Assumptions: []string{
			"ed25519/secp256k1 primitives and encoding/json are trusted black boxes; the reference verifies signatures with the raw key bytes, not through crypto.PubKey",
			"validator sets have distinct keys, powers >= 1 and total power <= 2^62-1 (the quantifier of the property)",
			"votes are signed directly with the private keys (types.MockPV draws OS randomness and FilePV is the subject of C04)",
			"fast sync (blockchain/reactor.go) and reconstructLastCommit call VerifyCommit / VoteSet.AddVote with the arguments exercised here; the goroutines around them are not driven by this check",
		},
		Cases: func(tier string) int {
			if tier == "thorough" {
				return 250000
			}
			return 4000
		},
		Batch: func(tier string) int {
			if tier == "thorough" {
				return 2500
			}
			return 100
		},
		Run: run,
		Floors: func(tier string) map[string]int64 {
			return floors(tier)
		},
		Init: core.QuietLogs,
	})
}

func run(c *core.Ctx) {
	switch k := c.Index % 10; {
	case k < 5:
		runCommits(c)
	case k < 9:
		runHistory(c)
	default:
		runMST(c)
	}
}

// floors: about half of the minimum observed over seeds 1..5 (quick); the per-class AddVote counters vary
// more between seeds (exhaustive orderings multiply them), so their floors are lower. thorough has 62.5x the cases, floors x25.
func floors(tier string) map[string]int64 {
	f := map[string]int64{
		// part A
		"commits_checked": 8000, "ref_accepts": 3500, "ref_rejects": 4500, "verifycommit_accepts": 2000, "verifycommit_rejects": 6000,
		"wellformed_commits": 3500, "validateblock_accepts": 1900, "validateblock_rejects": 4000, "totals_of_62_bits": 1500, "signbytes_crosschecks": 30000,
		"threshold_floor_total_mod3=0": 400, "threshold_floor_total_mod3=1": 400, "threshold_floor_total_mod3=2": 400,
		"threshold_floor+1_total_mod3=0": 400, "threshold_floor+1_total_mod3=1": 400, "threshold_floor+1_total_mod3=2": 400,
		"threshold_floor-1_total_mod3=0": 400, "threshold_floor-1_total_mod3=1": 400, "threshold_floor-1_total_mod3=2": 400,
		"scenario:two-rounds": 500, "scenario:args-chain": 200, "scenario:args-block": 200, "scenario:args-height": 200, "scenario:shifted": 300, "scenario:size": 300,
		// part B
		"orders_run": 12000, "exhaustive_histories": 100, "addvote_kind:first": 30000, "addvote_kind:duplicate": 1300, "addvote_kind:resigned": 600,
		"addvote_kind:conflict": 5000, "conflicts_added_under_peer_claim": 500, "evidence_checked": 5000, "setpeermaj23_calls": 12000,
		"addvote_result:index": 500, "addvote_result:address": 1100, "addvote_result:size": 50, "addvote_result:step": 1800,
		"addvote_result:signature": 4500, "addvote_result:nondeterministic": 1900,
		"maj23_reached": 5000, "maj23_at_floor+1": 1800, "history_end_without_maj23": 6000, "history_end_thresholdblock_at_floor": 1200,
		"makecommit_checked": 4000, "sum_comparisons": 70000, "two_thirds_any_seen": 25000,
		// part C
		"mst_checked": 200, "mst_ref_accepts": 70, "mst_ref_rejects": 110, "mst_threshold_floor": 40, "mst_threshold_floor+1": 50,
	}
	for _, cl := range defectClasses {
		f["slot:"+cl] = 700
	}
	for _, cl := range invalidVoteClasses {
		f["addvote_invalid:"+cl] = 50
	}
	if tier == "thorough" {
		for k := range f {
			f[k] *= 25
		}
	}
	return f
}
