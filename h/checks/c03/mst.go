package c03

// Part C: MultiSignAccountTx.VerifySign — a validator-signed transaction is accepted only with
// correct signatures of more than two thirds of the voting power, every validator counted once.

import (
	"bytes"
	"fmt"
	"math/big"

	"github.com/lianxiangcloud/linkchain/libs/common"
	"github.com/lianxiangcloud/linkchain/libs/crypto"
	"github.com/lianxiangcloud/linkchain/types"

	"verif/h/internal/core"
)

func runMST(c *core.Ctx) {
	r := c.Rng
	n := genSize(r)
	if n > 25 {
		n = r.Range(1, 25)
	}
	vals := genKeys(r, n, 0.1)
	sp := genSplit(r, n)
	applyPowers(vals, sp.Powers)
	set, err := realValSet(vals)
	if err != nil {
		c.Inconclusive("harness: " + err.Error())
		return
	}
	outsiders := genKeys(r, 2, 0)
	info := types.MultiSignMainInfo{AccountNonce: uint64(r.Intn(1000)), SupportTxType: types.SupportType(r.Intn(2))}
	info.MinSignerPower = int32(r.Range(1, 100))
	for k := r.Range(1, 4); k > 0; k-- {
		info.Signers = append(info.Signers, &types.SignerEntry{Power: int32(r.Range(1, 50)), Addr: common.BytesToAddress(r.Bytes(20))})
	}
	msg, err := types.GenMultiSignBytes(info)
	if err != nil {
		c.Inconclusive("harness: GenMultiSignBytes: " + err.Error())
		return
	}
	other := info
	other.AccountNonce++
	otherMsg, _ := types.GenMultiSignBytes(other)
	if bytes.Equal(msg, otherMsg) {
		c.Violation("mst/signbytes-ignore-nonce", "GenMultiSignBytes is the same for two different nonces", nil)
		return
	}

	var sigs []types.ValidatorSign
	var labels []string
	add := func(addr []byte, sig []byte, label string) {
		sigs = append(sigs, types.ValidatorSign{Addr: append([]byte{}, addr...), Signature: sig})
		labels = append(labels, label)
	}
	one := r.Chance(0.5)
	class := r.Intn(8)
	for i, v := range vals {
		if sp.InS[i] {
			add(v.Addr, refSign(v, msg).Bytes(), "good")
			if r.Chance(0.05) {
				add(v.Addr, refSign(v, msg).Bytes(), "good-repeated")
			}
			continue
		}
		k := class
		if !one {
			k = r.Intn(8)
		}
		switch k {
		case 0: // absent
		case 1:
			add(v.Addr, refSign(v, otherMsg).Bytes(), "sig-over-other-content")
		case 2:
			add(v.Addr, flipSig(r, refSign(v, msg)).Bytes(), "sig-flip")
		case 3:
			w := vals[(i+1)%n]
			if n == 1 {
				w = outsiders[0]
			}
			add(v.Addr, refSign(w, msg).Bytes(), "sig-of-other-validator")
		case 4:
			add(v.Addr, refSign(outsiders[0], msg).Bytes(), "sig-of-outsider")
		case 5:
			add(outsiders[1].Addr, refSign(outsiders[1], msg).Bytes(), "outsider-entry")
		case 6:
			add(v.Addr, r.Bytes(r.Range(0, 70)), "sig-garbage")
		case 7: // a member of S signs again under this slot's position (duplicate address of a good signer)
			var s []int
			for j := range vals {
				if sp.InS[j] {
					s = append(s, j)
				}
			}
			if len(s) > 0 {
				w := vals[s[r.Intn(len(s))]]
				add(w.Addr, refSign(w, msg).Bytes(), "good-repeated")
			}
		}
	}
	// arrival order of the entries matters to the implementation (it stops at the quorum): shuffle
	perm := r.Perm(len(sigs))
	ps := make([]types.ValidatorSign, len(sigs))
	pl := make([]string, len(sigs))
	for i, j := range perm {
		ps[i], pl[i] = sigs[j], labels[j]
	}
	sigs, labels = ps, pl

	// reference: distinct validators with at least one entry whose signature verifies over the tx content
	signed := map[int]bool{}
	wellFormed := true
	seenAddr := map[string]bool{}
	for _, s := range sigs {
		if seenAddr[string(s.Addr)] {
			wellFormed = false
		}
		seenAddr[string(s.Addr)] = true
		idx := -1
		for i, v := range vals {
			if bytes.Equal(v.Addr, s.Addr) {
				idx = i
			}
		}
		if idx < 0 {
			wellFormed = false
			continue
		}
		sig, err := crypto.SignatureFromBytes(s.Signature)
		if err != nil || sig == nil {
			wellFormed = false
			continue
		}
		if refVerify(vals[idx], msg, sig) {
			signed[idx] = true
		}
	}
	tallied := new(big.Int)
	for i := range signed {
		tallied.Add(tallied, big.NewInt(vals[i].Power))
	}
	total := totalPower(vals)
	accept := moreThanTwoThirds(tallied, total)

	tx := types.NewMultiSignAccountTx(&info, sigs)
	var verr error
	func() {
		defer func() {
			if rec := recover(); rec != nil {
				verr = fmt.Errorf("panic in VerifySign: %v", rec)
				c.Count("mst_panics", 1)
			}
		}()
		verr = tx.VerifySign(set)
	}()
	c.Count("mst_checked", 1)
	if accept {
		c.Count("mst_ref_accepts", 1)
	} else {
		c.Count("mst_ref_rejects", 1)
	}
	if tc := thresholdClass(tallied, total); tc != "" {
		c.Count("mst_threshold_"+tc, 1)
	}
	wit := func() map[string]interface{} {
		var es []string
		for i, s := range sigs {
			es = append(es, fmt.Sprintf("%x [%s]", head(s.Addr, 4), labels[i]))
		}
		var pw []string
		for i, v := range vals {
			pw = append(pw, fmt.Sprintf("%x:%d signed=%v", head(v.Addr, 4), v.Power, signed[i]))
		}
		return map[string]interface{}{"entries": es, "validators": pw, "ref_tallied": tallied.String(), "total": total.String(), "well_formed": wellFormed}
	}
	if verr == nil && !accept {
		// class of the entries that must not count: near-threshold | repeated-signer | bad-signature | outsider | mixed
		cat := map[string]string{"good-repeated": "repeated-signer", "outsider-entry": "outsider"}
		lab := ""
		for i := range sigs {
			if labels[i] == "good" {
				continue
			}
			k := cat[labels[i]]
			if k == "" {
				k = "bad-signature"
			}
			if lab == "" {
				lab = k
			} else if lab != k {
				lab = "mixed"
				break
			}
		}
		if lab == "" {
			lab = "no-defective-entry"
		}
		// with only one correct entry per signer left: still accepted => the threshold arithmetic itself
		var only []types.ValidatorSign
		kept := map[string]bool{}
		for i := range sigs {
			if labels[i] == "good" && !kept[string(sigs[i].Addr)] {
				kept[string(sigs[i].Addr)] = true
				only = append(only, sigs[i])
			}
		}
		if types.NewMultiSignAccountTx(&info, only).VerifySign(set) == nil {
			lab = "threshold"
		}
		c.Violation("mst-verifysign/accepts-insufficient/"+lab, fmt.Sprintf("VerifySign accepted; correct signatures cover %s of %s", tallied, total), wit())
		return
	}
	if verr != nil && accept && wellFormed {
		c.Violation("mst-verifysign/rejects-sufficient-wellformed", fmt.Sprintf("VerifySign: %v; correct signatures cover %s of %s", verr, tallied, total), wit())
		return
	}
	c.Nontrivial(fmt.Sprintf("C%x", r.Uint64()))
	if c.Index%500 == 9 {
		w := wit()
		w["part"] = "multisign-tx"
		w["verifysign_error"] = fmt.Sprint(verr)
		c.Sample(w)
	}
}
