package c12

import (
	"fmt"
	"math/big"
	"reflect"
	"strings"
	"sync"
	"sync/atomic"
	"time"
	"unsafe"

	"verif/h/internal/rng"
)

// A reflective single-field perturbator. It enumerates the primitive leaves (integers, strings, byte
// strings, fixed byte arrays, big integers, times, booleans) reachable from a value through exported
// fields, slices, pointers and interfaces, and can change exactly one of them to a different value.
// Unexported fields are volatile caches everywhere in package types except the `data` record of
// Transaction / TokenTransaction, which is entered (through unsafe, as the fields cannot be set otherwise).

var (
	bigPtrType   = reflect.TypeOf((*big.Int)(nil))
	timeType     = reflect.TypeOf(time.Time{})
	atomicValue  = reflect.TypeOf(atomic.Value{})
	mutexType    = reflect.TypeOf(sync.Mutex{})
	enteredUnexp = map[string]bool{"data": true}
)

type walker struct {
	target  int // leaf number to perturb; -1 = enumerate only
	n       int
	classes []string
	r       *rng.R
	hit     string // class of the perturbed leaf
	desc    string // old -> new
}

func (w *walker) leaf(v reflect.Value, class string) bool {
	idx := w.n
	w.n++
	if w.target < 0 {
		w.classes = append(w.classes, class)
		return false
	}
	if idx != w.target {
		return false
	}
	w.hit = class
	old := fmt.Sprintf("%v", summarize(v))
	switch {
	case v.Type() == bigPtrType:
		b := v.Interface().(*big.Int)
		v.Set(reflect.ValueOf(new(big.Int).Add(b, big.NewInt(1))))
	case v.Type() == timeType:
		t := v.Interface().(time.Time)
		d := time.Nanosecond
		if w.r.Bool() {
			d = time.Second
		}
		v.Set(reflect.ValueOf(t.Add(d)))
	default:
		switch v.Kind() {
		case reflect.Bool:
			v.SetBool(!v.Bool())
		case reflect.Uint, reflect.Uint8, reflect.Uint16, reflect.Uint32, reflect.Uint64:
			v.SetUint(v.Uint() ^ 1)
		case reflect.Int, reflect.Int8, reflect.Int16, reflect.Int32, reflect.Int64:
			v.SetInt(v.Int() ^ 1)
		case reflect.String:
			s := []byte(v.String())
			if len(s) == 0 || w.r.Chance(0.3) {
				s = append(s, 'x')
			} else {
				s[w.r.Intn(len(s))] ^= 0x01
			}
			v.SetString(string(s))
		case reflect.Slice: // byte string
			b := append([]byte{}, v.Bytes()...)
			if len(b) == 0 {
				b = []byte{0x01}
			} else {
				b[w.r.Intn(len(b))] ^= byte(1 << uint(w.r.Intn(8)))
			}
			v.SetBytes(b)
		case reflect.Array: // fixed byte array
			i := w.r.Intn(v.Len())
			e := v.Index(i)
			e.SetUint(e.Uint() ^ uint64(1<<uint(w.r.Intn(8))))
		default:
			panic("c12: unhandled leaf kind " + v.Kind().String())
		}
	}
	w.desc = fmt.Sprintf("%s: %s -> %v", class, old, summarize(v))
	return true
}

func summarize(v reflect.Value) interface{} {
	if v.Type() == bigPtrType || v.Type() == timeType {
		return v.Interface()
	}
	switch v.Kind() {
	case reflect.Slice:
		return short(v.Bytes())
	case reflect.Array:
		b := make([]byte, v.Len())
		for i := range b {
			b[i] = byte(v.Index(i).Uint())
		}
		return short(b)
	}
	return v.Interface()
}

func typeName(t reflect.Type) string {
	for t.Kind() == reflect.Ptr {
		t = t.Elem()
	}
	return t.Name()
}

// walk returns true when the target leaf was found below v and changed. v must be addressable.
func (w *walker) walk(v reflect.Value, class string) bool {
	t := v.Type()
	if t == bigPtrType {
		if v.IsNil() {
			return false
		}
		return w.leaf(v, class)
	}
	if t == timeType {
		return w.leaf(v, class)
	}
	switch v.Kind() {
	case reflect.Ptr:
		if v.IsNil() {
			return false
		}
		return w.walk(v.Elem(), class)
	case reflect.Interface:
		if v.IsNil() {
			return false
		}
		e := v.Elem()
		cls := class + "(" + typeName(e.Type()) + ")"
		if e.Kind() == reflect.Ptr {
			if e.IsNil() {
				return false
			}
			return w.walk(e.Elem(), cls)
		}
		cp := reflect.New(e.Type()).Elem()
		cp.Set(e)
		if w.walk(cp, cls) {
			v.Set(cp)
			return true
		}
		return false
	case reflect.Struct:
		for i := 0; i < t.NumField(); i++ {
			sf := t.Field(i)
			if sf.Type == atomicValue || sf.Type == mutexType || sf.Type.Kind() == reflect.Func {
				continue
			}
			if tag := sf.Tag.Get("rlp"); tag == "-" {
				continue
			}
			f := v.Field(i)
			if sf.PkgPath != "" { // unexported
				if !enteredUnexp[sf.Name] {
					continue
				}
				f = reflect.NewAt(sf.Type, unsafe.Pointer(f.UnsafeAddr())).Elem()
			}
			if w.walk(f, class+"."+sf.Name) {
				return true
			}
		}
		return false
	case reflect.Slice:
		if t.Elem().Kind() == reflect.Uint8 {
			return w.leaf(v, class)
		}
		for i := 0; i < v.Len(); i++ {
			if w.walk(v.Index(i), class+"[]") {
				return true
			}
		}
		return false
	case reflect.Array:
		if t.Elem().Kind() == reflect.Uint8 {
			return w.leaf(v, class)
		}
		for i := 0; i < v.Len(); i++ {
			if w.walk(v.Index(i), class+"[]") {
				return true
			}
		}
		return false
	case reflect.Bool, reflect.String,
		reflect.Uint, reflect.Uint8, reflect.Uint16, reflect.Uint32, reflect.Uint64,
		reflect.Int, reflect.Int8, reflect.Int16, reflect.Int32, reflect.Int64:
		return w.leaf(v, class)
	}
	return false
}

// leaves enumerates the leaf classes below the addressable value behind ptr.
func leaves(ptr interface{}, class string) []string {
	w := &walker{target: -1}
	w.walk(reflect.ValueOf(ptr).Elem(), class)
	return w.classes
}

// perturbLeaf changes leaf number k below ptr; it reports the leaf's class and an old->new description.
func perturbLeaf(ptr interface{}, class string, k int, r *rng.R) (string, string, bool) {
	w := &walker{target: k, r: r}
	ok := w.walk(reflect.ValueOf(ptr).Elem(), class)
	return w.hit, w.desc, ok
}

// stripIface turns "Tx(Transaction).data.Payload" into a stable class string (already stable; kept for clarity).
func groupOf(class string) string {
	switch {
	case strings.HasPrefix(class, "Header."):
		return class
	case strings.HasPrefix(class, "Tx"):
		return "Txs.content"
	case strings.HasPrefix(class, "Evidence"):
		return "Evidence.content"
	case strings.HasPrefix(class, "Commit.BlockID"):
		return "Commit.BlockID"
	case strings.HasPrefix(class, "Commit.Precommit"):
		return "Commit.Precommit"
	}
	return class
}
