// Package c12: block identity commits to content; part sets reassemble only the original (DESIGN.md §5 C12).
package c12

import (
	"time"

	"verif/h/internal/core"
)

func init() {
	core.Register(&core.Check{
		ID:        "C12",
		Level:     "exploration",
		Also:      []string{"C12S"}, // consensus-side lane: held block = block the held parts encode (h/checks/c12sim)
		Technique: "runtime monitoring of the real types.Block / types.PartSet code under generated blocks, reflective single-field perturbations and adversarial part-delivery schedules; oracles: identity law over (Block.Hash, MakePartSet.Header), byte comparison with the proposer's encoding, harness re-implementation of the Merkle audit path",
		Rule: "two case families (index%5==0: identity, else: part sets). identity case = one generated block (random header, 0-40 signed account txs of 5 kinds, 0-4 evidence, commit of 4-10 validators) x every primitive leaf of header / sampled txs / evidence / commit + order and membership changes of txs / evidence / precommits, each with and without re-deriving the header's derived hashes; evaluated on a fresh decode of the perturbed encoding. " +
			"parts case = one block, one part size from {1,7,64,256,1000,4096,65536,len,len+1,few}, all arrival orders for <=5 parts (else random + in-order + reverse), interleaved with duplicates and 17 kinds of forged parts (inner-node pre-image with shortened path, truncated/extended/bit-flipped bytes, negative / >=total / shifted index, every aunt flipped, aunt list shortened/extended/swapped/re-lengthed, proofs of other indices, parts of another block with the same total), half of the schedules through the part's wire encoding. " +
			"non-trivial: identity = >=2 tx kinds, >=1 evidence, >=4 precommits, >=50 evaluated perturbations; parts = >=2 parts, >=3 forged kinds delivered and >=1 forgery arrived before the honest part of its index. distinct by hash of the block encoding (+ part size)",
		Assumptions: []string{
			"keccak256 is collision resistant and is used as a black box by the harness's reference audit path",
			"a perturbation that does not change the ser encoding of the block is not a change of the block (unexported fields: Header.bloom and the hash/size/from caches are not transmitted)",
			"SimpleProof carries only the aunt list in this code base (no Total/Index inside the proof), so those tamperings do not exist here",
			"UTXO transactions are not generated (they need RingCT proving); the Tx hash path they use is the same transactionHash helper",
		},
		Cases: func(tier string) int {
			if tier == "thorough" {
				return 30000
			}
			return 1500
		},
		// short batches at the thorough tier so that the per-child watchdog is never the limiting factor on a loaded machine
		Batch: func(tier string) int {
			if tier == "thorough" {
				return 100
			}
			return 0
		},
		Run: func(c *core.Ctx) {
			if c.Index%5 == 0 {
				runIdentity(c)
			} else {
				runParts(c)
			}
		},
		Floors:           floors,
		PanicIsViolation: false,
		Init:             core.QuietLogs,
		BatchTimeout:     6 * time.Minute,
	})
}

// floors: roughly half of the minimum observed over VERIF_SEED=1..5 at the quick tier; thorough scales with the case count.
// The blockhash_sensitive/* and validatebasic_caught/* floors also make the run inconclusive (never "held") when a
// mechanism the property's anchors name (a field in Header.Hash's map, the order sensitivity of Txs.Hash, a comparison in
// ValidateBasic) stops discriminating while the part-set hash still covers the change - the property itself allows either.
func floors(tier string) map[string]int64 {
	f := map[string]int64{
		"identity_blocks":                150,
		"degenerate_root_deliveries":     25000,
		"perturbations_evaluated":        45000,
		"rederived_passes_validatebasic": 20000,
		"schedules":                      5000,
		"schedules_completed":            4700,
		"schedules_incomplete":           500,
		"exhaustive_order_cases":         250,
		"hostile_before_honest":          60000,
		"parts_via_wire":                 200000,
		"reassembled_blocks_decoded":     4700,
		"partsize/1":                     35,
		"partsize/7":                     35,
		"partsize/len":                   30,
		"partsize/len+1":                 30,
		"partsize/65536":                 30,
		"reference_tree_agrees":          600,
	}
	for _, h := range []string{"ChainID", "Height", "Coinbase", "Time", "NumTxs", "TotalTxs", "ParentHash", "LastBlockID.Hash",
		"LastBlockID.PartsHeader.Total", "LastBlockID.PartsHeader.Hash", "LastCommitHash", "ValidatorsHash", "ConsensusHash",
		"DataHash", "StateHash", "ReceiptHash", "GasLimit", "GasUsed", "EvidenceHash"} {
		f["blockhash_sensitive/Header."+h] = 150
	}
	for g, n := range map[string]int64{"Txs.content": 8000, "Txs.order": 700, "Txs.list": 1300, "Evidence.content": 4100,
		"Evidence.order": 150, "Evidence.list": 1100, "Commit.Precommit": 4700, "Commit.order": 350, "Commit.list": 1100} {
		f["blockhash_sensitive/"+g] = n
		f["validatebasic_caught/"+g] = n
	}
	for _, k := range hostileKinds {
		f["hostile/"+k] = 4000
	}
	if tier == "thorough" {
		for k := range f {
			f[k] *= 15
		}
	}
	return f
}
