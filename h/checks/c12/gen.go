package c12

import (
	"crypto/ecdsa"
	"fmt"
	"math/big"
	"time"

	"github.com/lianxiangcloud/linkchain/libs/common"
	"github.com/lianxiangcloud/linkchain/libs/crypto"
	"github.com/lianxiangcloud/linkchain/types"

	"verif/h/internal/rng"
)

// world holds the key material of one case (all derived from the case rng).
type world struct {
	r       *rng.R
	chainID string
	senders []*ecdsa.PrivateKey
	vals    []crypto.PrivKey
}

func newWorld(r *rng.R, nvals int) *world {
	w := &world{r: r}
	n := r.Range(1, 20)
	b := make([]byte, n)
	for i := range b {
		b[i] = "abcdefghijklmnopqrstuvwxyz0123456789-_"[r.Intn(38)]
	}
	w.chainID = string(b)
	for i := 0; i < 4; i++ {
		w.senders = append(w.senders, w.ecKey())
	}
	for i := 0; i < nvals; i++ {
		w.vals = append(w.vals, w.valKey())
	}
	return w
}

func (w *world) ecKey() *ecdsa.PrivateKey {
	for {
		k, err := crypto.ToECDSA(w.r.Bytes(32))
		if err == nil {
			return k
		}
	}
}

func (w *world) valKey() crypto.PrivKey {
	if w.r.Chance(0.3) {
		return crypto.GenPrivKeySecp256k1FromSecret(w.r.Bytes(32))
	}
	return crypto.GenPrivKeyEd25519FromSecret(w.r.Bytes(32))
}

func (w *world) hash() common.Hash       { return common.BytesToHash(w.r.Bytes(32)) }
func (w *world) address() common.Address { return common.BytesToAddress(w.r.Bytes(20)) }

func (w *world) bigAmount() *big.Int {
	switch w.r.Intn(4) {
	case 0:
		return big.NewInt(0)
	case 1:
		return big.NewInt(int64(w.r.Intn(1000)))
	case 2:
		return new(big.Int).SetBytes(w.r.Bytes(w.r.Range(1, 12)))
	default:
		return new(big.Int).Mul(big.NewInt(int64(w.r.Range(1, 1e6))), big.NewInt(1e18))
	}
}

func (w *world) payload(max int) []byte {
	switch w.r.Intn(4) {
	case 0:
		return nil
	case 1:
		return w.r.Bytes(w.r.Range(1, 36))
	default:
		return w.r.Bytes(w.r.Range(1, max))
	}
}

// genTx builds one signed transaction of an account-based kind through the exported constructors.
func (w *world) genTx(maxPayload int) (types.Tx, string) {
	r := w.r
	key := w.senders[r.Intn(len(w.senders))]
	switch x := r.Intn(100); {
	case x < 35: // plain transfer / contract call
		tx := types.NewTransaction(uint64(r.Intn(1000)), w.address(), w.bigAmount(), uint64(r.Range(21000, 5000000)), nil, w.payload(maxPayload))
		if err := tx.Sign(types.GlobalSTDSigner, key); err != nil {
			panic(err)
		}
		return tx, "tx"
	case x < 50: // contract creation
		tx := types.NewContractCreation(uint64(r.Intn(1000)), w.bigAmount(), uint64(r.Range(53000, 8000000)), nil, append([]byte{0x60, 0x60}, w.r.Bytes(r.Range(1, maxPayload))...))
		if err := tx.Sign(types.GlobalSTDSigner, key); err != nil {
			panic(err)
		}
		return tx, "create"
	case x < 75: // token transfer
		tx := types.NewTokenTransaction(w.address(), uint64(r.Intn(1000)), w.address(), w.bigAmount(), uint64(r.Range(21000, 5000000)), nil, w.payload(maxPayload))
		if err := tx.Sign(types.GlobalSTDSigner, key); err != nil {
			panic(err)
		}
		return tx, "txt"
	case x < 88: // contract upgrade (multi-signed special tx)
		mi := &types.ContractUpgradeMainInfo{FromAddr: w.address(), Recipient: w.address(), AccountNonce: uint64(r.Intn(1000)), Payload: w.r.Bytes(r.Range(1, maxPayload))}
		var sigs [][]byte
		for i, n := 0, r.Range(1, 3); i < n; i++ {
			s, err := types.SignContractUpgradeTx(w.senders[(i+r.Intn(2))%len(w.senders)], mi)
			if err != nil {
				panic(err)
			}
			sigs = append(sigs, s)
		}
		tx := types.UpgradeContractTx(mi, sigs)
		if tx == nil {
			panic("UpgradeContractTx returned nil")
		}
		return tx, "cut"
	default: // multi-sign account tx signed by validators
		mi := &types.MultiSignMainInfo{AccountNonce: uint64(r.Intn(1000)), SupportTxType: types.SupportType(r.Intn(2))}
		mi.MinSignerPower = int32(r.Range(1, 100))
		for i, n := 0, r.Range(1, 4); i < n; i++ {
			mi.Signers = append(mi.Signers, &types.SignerEntry{Power: int32(r.Range(1, 50)), Addr: w.address()})
		}
		sb, err := types.GenMultiSignBytes(*mi)
		if err != nil {
			panic(err)
		}
		var sigs []types.ValidatorSign
		for i, n := 0, r.Range(1, len(w.vals)); i < n; i++ {
			v := w.vals[i]
			s, err := v.Sign(sb)
			if err != nil {
				panic(err)
			}
			sigs = append(sigs, types.ValidatorSign{Addr: v.PubKey().Address(), Signature: s.Bytes()})
		}
		return types.NewMultiSignAccountTx(mi, sigs), "mst"
	}
}

func (w *world) ts() time.Time {
	return time.Unix(int64(1500000000+w.r.Intn(200000000)), int64(w.r.Intn(1000000000))).UTC()
}

func (w *world) blockID() types.BlockID {
	return types.BlockID{Hash: w.hash(), PartsHeader: types.PartSetHeader{Total: w.r.Range(1, 60), Hash: w.r.Bytes(32)}}
}

func (w *world) vote(idx int, key crypto.PrivKey, height uint64, round int, typ byte, bid types.BlockID) *types.Vote {
	v := &types.Vote{
		ValidatorAddress: key.PubKey().Address(),
		ValidatorIndex:   idx,
		ValidatorSize:    len(w.vals),
		Height:           height,
		Round:            round,
		Timestamp:        w.ts(),
		Type:             typ,
		BlockID:          bid,
	}
	sig, err := key.Sign(v.SignBytes(w.chainID))
	if err != nil {
		panic(err)
	}
	v.Signature = sig
	return v
}

func (w *world) genEvidence(height uint64) (types.Evidence, string) {
	r := w.r
	switch x := r.Intn(100); {
	case x < 55:
		i := r.Intn(len(w.vals))
		h := uint64(r.Range(1, int(height)))
		rd := r.Intn(4)
		typ := types.VoteTypePrevote
		if r.Bool() {
			typ = types.VoteTypePrecommit
		}
		return &types.DuplicateVoteEvidence{PubKey: w.vals[i].PubKey(), VoteA: w.vote(i, w.vals[i], h, rd, typ, w.blockID()), VoteB: w.vote(i, w.vals[i], h, rd, typ, w.blockID())}, "dve"
	case x < 92:
		return &types.FaultValidatorsEvidence{BlockHeight: uint64(r.Range(1, int(height))), Round: r.Range(1, 5),
			Proposer: w.vals[r.Intn(len(w.vals))].PubKey(), FaultVal: w.vals[r.Intn(len(w.vals))].PubKey()}, "fve"
	default: // the mock evidence types are registered with the production codec, hence decodable from the wire
		return types.NewMockGoodEvidence(uint64(r.Range(1, int(height))), 0, w.r.Bytes(r.Range(4, 24))), "mock"
	}
}

type blockSpec struct {
	NTx, NEv, NVals, MaxPayload int
}

type blockInfo struct {
	Height  uint64   `json:"height"`
	TxKinds []string `json:"tx_kinds"`
	EvKinds []string `json:"ev_kinds"`
	NVals   int      `json:"validators"`
	NilPre  int      `json:"nil_precommits"`
	Len     int      `json:"encoded_len,omitempty"`
	// ZeroValidatorsHash: a recover block whose validators hash is zero
	ZeroValidatorsHash bool `json:"zero_validators_hash,omitempty"`
}

// genBlock builds a block the way a proposer does (MakeBlock + header fill-in), with every header field set.
func (w *world) genBlock(sp blockSpec) (*types.Block, *blockInfo) {
	r := w.r
	info := &blockInfo{NVals: len(w.vals)}
	height := uint64(r.Range(2, 5000000))
	if r.Chance(0.04) {
		height = types.BlockHeightOne
	}
	info.Height = height
	var txs []types.Tx
	for i := 0; i < sp.NTx; i++ {
		tx, k := w.genTx(sp.MaxPayload)
		txs = append(txs, tx)
		info.TxKinds = append(info.TxKinds, k)
	}
	lastID := w.blockID()
	commit := &types.Commit{}
	if height != types.BlockHeightOne {
		commit.BlockID = lastID
		round := r.Intn(3)
		maxNil := (len(w.vals) - 1) / 3
		for i, k := range w.vals {
			if info.NilPre < maxNil && r.Chance(0.15) {
				commit.Precommits = append(commit.Precommits, nil)
				info.NilPre++
				continue
			}
			commit.Precommits = append(commit.Precommits, w.vote(i, k, height-1, round, types.VoteTypePrecommit, lastID))
		}
	}
	b := types.MakeBlock(height, txs, commit)
	h := b.Header
	h.ChainID = w.chainID
	h.Coinbase = w.address()
	h.Time = uint64(1500000000 + r.Intn(200000000))
	h.TotalTxs = h.NumTxs + uint64(r.Intn(1<<30))
	if r.Chance(0.3) {
		h.Recover = uint32(r.Range(1, 9))
	}
	h.ParentHash = lastID.Hash
	h.LastBlockID = lastID
	h.ValidatorsHash = w.hash()
	if h.Recover >= 1 && r.Chance(0.35) {
		// block validation does not compare the validators hash of a recover block: it may be anything, also zero,
		// and the block is still a block whose identity has to commit to every other field
		h.ValidatorsHash = common.Hash{}
		info.ZeroValidatorsHash = true
	}
	h.ConsensusHash = w.hash()
	h.StateHash = w.hash()
	h.ReceiptHash = w.hash()
	h.GasLimit = uint64(r.Range(1, 1<<40))
	h.GasUsed = uint64(r.Range(1, 1<<40))
	var evs []types.Evidence
	for i := 0; i < sp.NEv; i++ {
		ev, k := w.genEvidence(height + 1)
		evs = append(evs, ev)
		info.EvKinds = append(info.EvKinds, k)
	}
	b.AddEvidence(evs)
	rederive(b)
	return b, info
}

// rederive recomputes the header fields that are functions of the block body (what ValidateBasic compares).
// It must be called on a block whose hash caches have not been warmed.
func rederive(b *types.Block) {
	b.NumTxs = uint64(len(b.Data.Txs))
	b.DataHash = b.Data.Hash()
	b.LastCommitHash = b.LastCommit.Hash()
	b.EvidenceHash = b.Evidence.Hash()
}

func short(b []byte) string {
	if len(b) > 48 {
		return fmt.Sprintf("%x..(%d bytes)", b[:48], len(b))
	}
	return fmt.Sprintf("%x", b)
}
