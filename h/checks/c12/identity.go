package c12

import (
	"bytes"
	"fmt"
	"strings"

	"github.com/lianxiangcloud/linkchain/libs/common"
	"github.com/lianxiangcloud/linkchain/libs/crypto"
	"github.com/lianxiangcloud/linkchain/libs/ser"
	"github.com/lianxiangcloud/linkchain/types"

	"verif/h/internal/core"
)

// Oracle 1 (identity): every single-field / single-position perturbation of a block changes the
// block hash or the part-set header (mode "a": the attacker re-derives NumTxs / DataHash /
// LastCommitHash / EvidenceHash so that ValidateBasic passes; mode "b": no re-derivation, then
// ValidateBasic failing is also acceptable).
//
// Every perturbed block is built on a fresh decode of the base encoding (no warmed hash caches), is then
// encoded (the attacker's wire bytes), and the receiver's view is a fresh decode of those bytes.

type identity struct {
	c     *core.Ctx
	w     *world
	bz0   []byte
	h0    common.Hash
	sz    int
	ps0   types.PartSetHeader
	seen  map[string]bool
	nEval int
}

func decodeBlock(bz []byte) (*types.Block, error) {
	var b *types.Block
	if err := ser.DecodeBytes(bz, &b); err != nil {
		return nil, err
	}
	if b == nil || b.Header == nil || b.Data == nil || b.LastCommit == nil {
		return nil, fmt.Errorf("decoded block has nil sections")
	}
	return b, nil
}

func (o *identity) violation(key, detail string, wit interface{}) {
	if o.seen[key] {
		return
	}
	o.seen[key] = true
	o.c.Violation(key, detail, wit)
}

func (o *identity) fresh() *types.Block {
	b, err := decodeBlock(o.bz0)
	if err != nil {
		panic("c12: base block no longer decodes: " + err.Error())
	}
	return b
}

// eval judges one perturbed block P (not yet hashed). bodyChange: the perturbation touched txs / evidence / commit.
func (o *identity) eval(P *types.Block, class, group, mode, desc string) {
	c := o.c
	enc, err := ser.EncodeToBytes(P)
	if err != nil {
		c.Count("perturbed_unencodable", 1)
		return
	}
	if bytes.Equal(enc, o.bz0) {
		// the change does not reach the wire: no receiver can observe it, so it is not a change of the block
		c.Count("invisible_on_wire/"+class, 1)
		return
	}
	psh := P.MakePartSet(o.sz).Header()
	psSame := psh.Equals(o.ps0)
	R, err := decodeBlock(enc)
	if err != nil {
		c.Count("perturbed_undecodable/"+group, 1)
		if psSame {
			o.violation("partset/header-collision", fmt.Sprintf("two different encodings (%d and %d bytes) have the same part-set header at part size %d (%s)", len(o.bz0), len(enc), o.sz, desc), nil)
		}
		return
	}
	hashSame := R.Hash() == o.h0
	vb := R.ValidateBasic()
	o.nEval++
	c.Count("perturbations_evaluated", 1)
	c.Count("perturbations_mode_"+mode, 1)
	wit := func() interface{} {
		return map[string]interface{}{"class": class, "mode": mode, "change": desc, "part_size": o.sz, "block_hash": o.h0.Hex(),
			"parts_header": fmt.Sprintf("%d:%x", o.ps0.Total, []byte(o.ps0.Hash)), "validate_basic": fmt.Sprint(vb), "base_block_hex": short(o.bz0)}
	}
	if hashSame && psSame && (mode == "a" || vb == nil) {
		o.violation("identity/unchanged/"+class, fmt.Sprintf("mode %s: %s leaves Block.Hash() and MakePartSet(%d).Header() unchanged (ValidateBasic: %v)", mode, desc, o.sz, vb), wit())
		return
	}
	if psSame {
		o.violation("partset/header-collision", fmt.Sprintf("different encodings, same part-set header at part size %d (%s)", o.sz, desc), wit())
	}
	// observations about the block hash alone (the part-set hash covers the whole encoding; these
	// counters show which mechanism actually discriminated)
	switch mode {
	case "a":
		if hashSame {
			c.Count("blockhash_blind/"+class, 1)
		} else {
			c.Count("blockhash_sensitive/"+group, 1)
		}
		if vb == nil {
			c.Count("rederived_passes_validatebasic", 1)
		}
	case "b":
		if group == class && len(class) > 7 && class[:7] == "Header." {
			if hashSame {
				c.Count("blockhash_blind/"+class, 1)
			} else {
				c.Count("blockhash_sensitive/"+group, 1)
			}
			return
		}
		// body perturbation without re-derivation: the header (hence Block.Hash) is untouched by construction
		if vb != nil {
			c.Count("validatebasic_caught/"+group, 1)
		} else {
			c.Count("validatebasic_blind/"+class, 1)
			// The header hash (Block.Hash, the identity most of the node works with) commits to the ordered
			// transactions, the evidence list and the precommits of the previous commit only through the Merkle
			// roots that ValidateBasic checks against the header. A change of one of THOSE that keeps the header
			// and still passes ValidateBasic means two different valid blocks under one block hash. (The commit's
			// own BlockID field and the test-only mock evidence are outside that mechanism and only counted.)
			if !strings.HasPrefix(class, "Commit.BlockID") && !strings.HasPrefix(class, "Evidence(Mock") {
				o.violation("identity/body-change-not-tied-to-header/"+group, fmt.Sprintf("%s (no header field re-derived): Block.Hash() is unchanged and ValidateBasic accepts the block", desc), wit())
			}
		}
	}
}

type leafRef struct {
	root  string // header | tx | ev | cbid | pre
	idx   int
	k     int
	class string
}

func (o *identity) rootPtr(P *types.Block, l leafRef) (interface{}, string) {
	switch l.root {
	case "header":
		return P.Header, "Header"
	case "tx":
		return &P.Data.Txs[l.idx], "Tx"
	case "ev":
		return &P.Evidence.Evidence[l.idx], "Evidence"
	case "cbid":
		return &P.LastCommit.BlockID, "Commit.BlockID"
	case "pre":
		return P.LastCommit.Precommits[l.idx], "Commit.Precommit"
	}
	panic("bad root")
}

func pickSome(r interface{ Perm(int) []int }, n, max int) []int {
	p := r.Perm(n)
	if len(p) > max {
		p = p[:max]
	}
	return p
}

func runIdentity(c *core.Ctx) {
	r := c.Rng
	w := newWorld(r, r.Range(4, 10))
	sp := blockSpec{NTx: r.Range(0, 40), NEv: r.Range(0, 4), MaxPayload: []int{40, 200, 1200}[r.Intn(3)]}
	if r.Chance(0.1) {
		sp.NTx = r.Range(0, 2)
	}
	blk, info := w.genBlock(sp)
	bz0, err := ser.EncodeToBytes(blk)
	if err != nil {
		c.Inconclusive("generated block does not encode: " + err.Error())
		return
	}
	info.Len = len(bz0)
	o := &identity{c: c, w: w, bz0: bz0, seen: map[string]bool{}}
	o.sz = []int{64, 256, 1024, 4096, 65536, len(bz0), len(bz0) + 1}[r.Intn(7)]
	base := o.fresh()
	o.h0 = base.Hash()
	o.ps0 = base.MakePartSet(o.sz).Header()
	if vb := base.ValidateBasic(); vb != nil {
		c.Inconclusive("generated block fails ValidateBasic: " + vb.Error())
		return
	}
	if o.h0 != blk.Hash() {
		c.Count("diag_hash_differs_after_wire_roundtrip", 1)
	}
	if re, _ := ser.EncodeToBytes(base); !bytes.Equal(re, bz0) {
		c.Count("diag_reencode_differs", 1)
	}
	c.Count("identity_blocks", 1)

	thorough := c.Tier == "thorough"
	// ---- leaf perturbations
	var refs []leafRef
	add := func(root string, idx int, ptr interface{}, class string) {
		for k, cl := range leaves(ptr, class) {
			refs = append(refs, leafRef{root, idx, k, cl})
		}
	}
	add("header", 0, base.Header, "Header")
	txIdx := r.Perm(len(base.Data.Txs))
	if !thorough && len(txIdx) > 6 {
		txIdx = txIdx[:6]
	}
	for _, i := range txIdx {
		add("tx", i, &base.Data.Txs[i], "Tx")
	}
	for i := range base.Evidence.Evidence {
		add("ev", i, &base.Evidence.Evidence[i], "Evidence")
	}
	add("cbid", 0, &base.LastCommit.BlockID, "Commit.BlockID")
	var pre []int
	for i, v := range base.LastCommit.Precommits {
		if v != nil {
			pre = append(pre, i)
		}
	}
	if !thorough && len(pre) > 3 {
		p := r.Perm(len(pre))
		pre = []int{pre[p[0]], pre[p[1]], pre[p[2]]}
	}
	for _, i := range pre {
		add("pre", i, base.LastCommit.Precommits[i], "Commit.Precommit")
	}
	for _, l := range refs {
		modes := []string{"a", "b"}
		if l.root == "header" {
			modes = []string{"b"} // nothing to re-derive: re-deriving would only undo a change of a derived field
		}
		sub := r.Split()
		for _, mode := range modes {
			P := o.fresh()
			ptr, cls := o.rootPtr(P, l)
			pr := *sub // same random choices in both modes
			hit, desc, ok := perturbLeaf(ptr, cls, l.k, &pr)
			if !ok || hit != l.class {
				c.Inconclusive(fmt.Sprintf("leaf enumeration unstable: wanted %s got %s", l.class, hit))
				return
			}
			if mode == "a" {
				rederive(P)
			}
			o.eval(P, l.class, groupOf(l.class), mode, desc)
		}
	}
	c.Count("leaf_perturbations", int64(len(refs)))

	// ---- structural perturbations (order and membership)
	type structural struct {
		name, group string
		apply       func(P *types.Block) (string, bool)
	}
	nTx, nEv, nPre := len(base.Data.Txs), len(base.Evidence.Evidence), len(base.LastCommit.Precommits)
	var sts []structural
	reps := 3
	if thorough {
		reps = 8
	}
	for rep := 0; rep < reps; rep++ {
		if nTx >= 2 {
			i, j := r.Intn(nTx), r.Intn(nTx)
			if base.Data.Txs[i].Hash() != base.Data.Txs[j].Hash() {
				sts = append(sts, structural{"Txs.swap", "Txs.order", func(P *types.Block) (string, bool) {
					P.Data.Txs[i], P.Data.Txs[j] = P.Data.Txs[j], P.Data.Txs[i]
					return fmt.Sprintf("swap txs %d and %d of %d", i, j, nTx), true
				}})
			}
			// rotation (every position changes, multiset equal)
			k := r.Range(1, nTx-1)
			sts = append(sts, structural{"Txs.rotate", "Txs.order", func(P *types.Block) (string, bool) {
				P.Data.Txs = append(append(types.Txs{}, P.Data.Txs[k:]...), P.Data.Txs[:k]...)
				return fmt.Sprintf("rotate txs by %d of %d", k, nTx), true
			}})
		}
		if nTx >= 1 {
			i := r.Intn(nTx)
			at := r.Intn(nTx + 1)
			sts = append(sts,
				structural{"Txs.drop", "Txs.list", func(P *types.Block) (string, bool) {
					P.Data.Txs = append(append(types.Txs{}, P.Data.Txs[:i]...), P.Data.Txs[i+1:]...)
					return fmt.Sprintf("drop tx %d of %d", i, nTx), true
				}},
				structural{"Txs.duplicate", "Txs.list", func(P *types.Block) (string, bool) {
					t := append(types.Txs{}, P.Data.Txs[:at]...)
					t = append(t, P.Data.Txs[i])
					P.Data.Txs = append(t, P.Data.Txs[at:]...)
					return fmt.Sprintf("insert a copy of tx %d at %d (of %d)", i, at, nTx), true
				}},
				structural{"Txs.resign", "Txs.content", func(P *types.Block) (string, bool) {
					key := o.w.ecKey()
					switch t := P.Data.Txs[i].(type) {
					case *types.Transaction:
						if t.Sign(types.GlobalSTDSigner, key) != nil {
							return "", false
						}
					case *types.TokenTransaction:
						if t.Sign(types.GlobalSTDSigner, key) != nil {
							return "", false
						}
					case *types.ContractUpgradeTx:
						if t.Sign(types.GlobalSTDSigner, key) != nil {
							return "", false
						}
					default:
						return "", false
					}
					return fmt.Sprintf("re-sign tx %d (%s) with another key", i, P.Data.Txs[i].TypeName()), true
				}})
		}
		{
			at := r.Intn(nTx + 1)
			sub := r.Split()
			sts = append(sts, structural{"Txs.insert", "Txs.list", func(P *types.Block) (string, bool) {
				w2 := *o.w
				w2.r = sub
				tx, kind := w2.genTx(60)
				t := append(types.Txs{}, P.Data.Txs[:at]...)
				t = append(t, tx)
				P.Data.Txs = append(t, P.Data.Txs[at:]...)
				return fmt.Sprintf("insert a new %s tx at %d (of %d)", kind, at, nTx), true
			}})
		}
		if nEv >= 2 {
			i, j := r.Intn(nEv), r.Intn(nEv)
			if !bytes.Equal(base.Evidence.Evidence[i].Hash(), base.Evidence.Evidence[j].Hash()) {
				sts = append(sts, structural{"Evidence.swap", "Evidence.order", func(P *types.Block) (string, bool) {
					e := P.Evidence.Evidence
					e[i], e[j] = e[j], e[i]
					return fmt.Sprintf("swap evidence %d and %d of %d", i, j, nEv), true
				}})
			}
		}
		if nEv >= 1 {
			i := r.Intn(nEv)
			sts = append(sts,
				structural{"Evidence.drop", "Evidence.list", func(P *types.Block) (string, bool) {
					e := P.Evidence.Evidence
					P.Evidence.Evidence = append(append(types.EvidenceList{}, e[:i]...), e[i+1:]...)
					return fmt.Sprintf("drop evidence %d of %d", i, nEv), true
				}},
				structural{"Evidence.duplicate", "Evidence.list", func(P *types.Block) (string, bool) {
					P.Evidence.Evidence = append(P.Evidence.Evidence, P.Evidence.Evidence[i])
					return fmt.Sprintf("append a copy of evidence %d (of %d)", i, nEv), true
				}})
		}
		{
			sub := r.Split()
			sts = append(sts, structural{"Evidence.append", "Evidence.list", func(P *types.Block) (string, bool) {
				w2 := *o.w
				w2.r = sub
				ev, kind := w2.genEvidence(P.Height + 1)
				P.Evidence.Evidence = append(P.Evidence.Evidence, ev)
				return fmt.Sprintf("append a new %s evidence (to %d)", kind, nEv), true
			}})
		}
		if nPre >= 2 {
			i, j := r.Intn(nPre), r.Intn(nPre)
			pi, pj := base.LastCommit.Precommits[i], base.LastCommit.Precommits[j]
			if i != j && (pi != nil || pj != nil) {
				sts = append(sts, structural{"Commit.swap", "Commit.order", func(P *types.Block) (string, bool) {
					p := P.LastCommit.Precommits
					p[i], p[j] = p[j], p[i]
					return fmt.Sprintf("swap precommits %d and %d of %d", i, j, nPre), true
				}})
			}
			if pi != nil {
				sts = append(sts, structural{"Commit.nil-out", "Commit.list", func(P *types.Block) (string, bool) {
					P.LastCommit.Precommits[i] = nil
					return fmt.Sprintf("replace precommit %d of %d by nil", i, nPre), true
				}},
					structural{"Commit.drop", "Commit.list", func(P *types.Block) (string, bool) {
						p := P.LastCommit.Precommits
						P.LastCommit.Precommits = append(append([]*types.Vote{}, p[:i]...), p[i+1:]...)
						return fmt.Sprintf("drop precommit %d of %d", i, nPre), true
					}},
					structural{"Commit.duplicate", "Commit.list", func(P *types.Block) (string, bool) {
						P.LastCommit.Precommits = append(P.LastCommit.Precommits, P.LastCommit.Precommits[i])
						return fmt.Sprintf("append a copy of precommit %d (of %d)", i, nPre), true
					}})
			}
		}
	}
	for _, st := range sts {
		for _, mode := range []string{"a", "b"} {
			P := o.fresh()
			desc, ok := st.apply(P)
			if !ok {
				continue
			}
			if mode == "a" {
				rederive(P)
			}
			o.eval(P, st.name, st.group, mode, desc)
		}
	}
	c.Count("structural_perturbations", int64(len(sts)))

	kinds := map[string]bool{}
	for _, k := range info.TxKinds {
		kinds[k] = true
	}
	if len(kinds) >= 2 && len(info.EvKinds) >= 1 && nPre >= 4 && o.nEval >= 50 {
		c.Nontrivial(fmt.Sprintf("i%x", crypto.Keccak256(bz0)[:8]))
	}
	if c.Index%250 == 0 {
		c.Sample(map[string]interface{}{"case": "identity", "block": info, "part_size": o.sz, "parts": o.ps0.Total, "perturbations": o.nEval})
	}
}
