package c12

import (
	"bytes"
	"fmt"
	"io"
	"math"

	"github.com/lianxiangcloud/linkchain/libs/crypto"
	"github.com/lianxiangcloud/linkchain/libs/crypto/merkle"
	"github.com/lianxiangcloud/linkchain/libs/ser"
	"github.com/lianxiangcloud/linkchain/types"

	"verif/h/internal/core"
	"verif/h/internal/rng"
)

// Oracle 2 (part sets). Proposer side: Block.MakePartSet(size). Receiver side: NewPartSetFromHeader
// + AddPart under adversarial schedules. Reference: the proposer's encoding cut into chunks by the
// harness, and a harness implementation of the simple-Merkle audit path (independent of the repo's).

// ---- reference Merkle audit path

func rlpString(b []byte) []byte {
	if len(b) == 1 && b[0] < 0x80 {
		return []byte{b[0]}
	}
	if len(b) < 56 {
		return append([]byte{0x80 + byte(len(b))}, b...)
	}
	var l []byte
	for n := len(b); n > 0; n >>= 8 {
		l = append([]byte{byte(n)}, l...)
	}
	return append(append([]byte{0xb7 + byte(len(l))}, l...), b...)
}

func refInner(l, r []byte) []byte {
	return crypto.Keccak256(rlpString(l), rlpString(r))
}

// refRoot recomputes the root from a leaf hash and its audit path (aunts[0] = sibling of the leaf,
// last = child of the root); nil if the path length does not fit the shape fixed by (index,total).
func refRoot(index, total int, leaf []byte, aunts [][]byte) []byte {
	if total <= 0 || index < 0 || index >= total {
		return nil
	}
	var right []bool // top-down: is our subtree the right child?
	lo, n := 0, total
	for n > 1 {
		nl := (n + 1) / 2
		if index-lo < nl {
			right = append(right, false)
			n = nl
		} else {
			right = append(right, true)
			lo += nl
			n -= nl
		}
	}
	if len(aunts) != len(right) {
		return nil
	}
	h := leaf
	for i := range aunts {
		if right[len(right)-1-i] {
			h = refInner(aunts[i], h)
		} else {
			h = refInner(h, aunts[i])
		}
	}
	return h
}

// ---- deliveries

type delivery struct {
	Kind   string `json:"kind"`
	Src    int    `json:"src"`   // index of the proposer part it was derived from
	Index  int    `json:"index"` // index claimed
	honest bool
	bytes  []byte
	aunts  [][]byte
}

func cpAunts(a [][]byte) [][]byte {
	out := make([][]byte, len(a))
	for i := range a {
		out[i] = append([]byte{}, a[i]...)
	}
	return out
}

func (d *delivery) part() *types.Part {
	return &types.Part{Index: d.Index, Bytes: append([]byte{}, d.bytes...), Proof: merkle.SimpleProof{Aunts: cpAunts(d.aunts)}}
}

type truth struct {
	total int
	sz    int
	bz    []byte
	root  []byte
	bytes [][]byte
	aunts [][][]byte
	other *truth // a different block with the same number of parts (may be nil)
	// the harness's reference audit path reproduces the root from every proposer proof
	refUsable bool
}

func takeParts(ps *types.PartSet) ([][]byte, [][][]byte) {
	var bs [][]byte
	var as [][][]byte
	for i := 0; i < ps.Total(); i++ {
		p := ps.GetPart(i)
		bs = append(bs, append([]byte{}, p.Bytes...))
		as = append(as, cpAunts(p.Proof.Aunts))
	}
	return bs, as
}

func sameAunts(a, b [][]byte) bool {
	if len(a) != len(b) {
		return false
	}
	for i := range a {
		if !bytes.Equal(a[i], b[i]) {
			return false
		}
	}
	return true
}

// judge classifies a delivered part against the proposer's part of the claimed index. A proof is valid iff
// it is the proposer's audit path for that index (under collision resistance no other path leads to the signed
// root) and - when the harness's reference tree reproduces the proposer's proofs - the reference agrees.
func (t *truth) judge(part *types.Part) (inRange, genuine, proofOK bool) {
	idx := part.Index
	inRange = idx >= 0 && idx < t.total
	if !inRange {
		return
	}
	genuine = bytes.Equal(part.Bytes, t.bytes[idx])
	proofOK = sameAunts(part.Proof.Aunts, t.aunts[idx])
	if t.refUsable && proofOK {
		proofOK = bytes.Equal(refRoot(idx, t.total, crypto.Keccak256(part.Bytes), part.Proof.Aunts), t.root)
	}
	return
}

var hostileKinds = []string{
	"truncated", "extended", "bitflip", "empty-bytes",
	"index-negative", "index-over", "index-shift",
	"aunt-flip", "aunts-short", "aunts-long", "aunts-swap", "aunt-length", "aunts-of-other-index",
	"other-block", "other-bytes-own-proof", "own-bytes-other-proof",
	"inner-preimage",
}

// hostile derives one or more forged deliveries of the given kind from proposer part j.
func (t *truth) hostile(r *rng.R, kind string, j int) []*delivery {
	b, a := t.bytes[j], t.aunts[j]
	mk := func(idx int, bs []byte, as [][]byte) *delivery {
		return &delivery{Kind: kind, Src: j, Index: idx, bytes: bs, aunts: as}
	}
	switch kind {
	case "truncated":
		if len(b) == 0 {
			return nil
		}
		return []*delivery{mk(j, b[:r.Intn(len(b))], a)}
	case "extended":
		return []*delivery{mk(j, append(append([]byte{}, b...), r.Bytes(r.Range(1, 4))...), a)}
	case "bitflip":
		if len(b) == 0 {
			return nil
		}
		nb := append([]byte{}, b...)
		nb[r.Intn(len(nb))] ^= byte(1 << uint(r.Intn(8)))
		return []*delivery{mk(j, nb, a)}
	case "empty-bytes":
		return []*delivery{mk(j, nil, a)}
	case "index-negative":
		c := []int{-1, -t.total, -(j + 1), math.MinInt64, math.MinInt32, -t.total - 1}
		return []*delivery{mk(c[r.Intn(len(c))], b, a)}
	case "index-over":
		c := []int{t.total, t.total + 1, t.total + j, math.MaxInt64, math.MaxInt32, 2 * t.total}
		return []*delivery{mk(c[r.Intn(len(c))], b, a)}
	case "index-shift":
		if t.total < 2 {
			return nil
		}
		k := r.Intn(t.total - 1)
		if k >= j {
			k++
		}
		if r.Bool() {
			if j+1 < t.total {
				k = j + 1
			} else {
				k = j - 1
			}
		}
		return []*delivery{mk(k, b, a)}
	case "aunt-flip": // every aunt, one at a time
		var out []*delivery
		for i := range a {
			na := cpAunts(a)
			if len(na[i]) == 0 {
				continue
			}
			na[i][r.Intn(len(na[i]))] ^= byte(1 << uint(r.Intn(8)))
			out = append(out, mk(j, b, na))
		}
		return out
	case "aunts-short":
		if len(a) == 0 {
			return nil
		}
		out := []*delivery{mk(j, b, cpAunts(a[1:])), mk(j, b, cpAunts(a[:len(a)-1]))}
		if len(a) > 1 {
			out = append(out, mk(j, b, nil))
		}
		return out
	case "aunts-long":
		x := r.Bytes(32)
		out := []*delivery{mk(j, b, append(cpAunts(a), x)), mk(j, b, append([][]byte{x}, cpAunts(a)...))}
		if len(a) > 0 {
			out = append(out, mk(j, b, append(cpAunts(a), a[len(a)-1])), mk(j, b, append(cpAunts(a), a[0])))
		} else {
			out = append(out, mk(j, b, [][]byte{t.root}), mk(j, b, [][]byte{crypto.Keccak256(b)}))
		}
		return out
	case "aunts-swap":
		if len(a) < 2 {
			return nil
		}
		x, y := r.Intn(len(a)), r.Intn(len(a))
		if x == y || bytes.Equal(a[x], a[y]) {
			return nil
		}
		na := cpAunts(a)
		na[x], na[y] = na[y], na[x]
		return []*delivery{mk(j, b, na)}
	case "aunt-length":
		if len(a) == 0 {
			return nil
		}
		i := r.Intn(len(a))
		n1, n2, n3 := cpAunts(a), cpAunts(a), cpAunts(a)
		n1[i] = n1[i][:len(n1[i])-1]
		n2[i] = append(n2[i], 0)
		n3[i] = nil
		return []*delivery{mk(j, b, n1), mk(j, b, n2), mk(j, b, n3)}
	case "aunts-of-other-index":
		if t.total < 2 {
			return nil
		}
		k := r.Intn(t.total - 1)
		if k >= j {
			k++
		}
		return []*delivery{mk(j, b, t.aunts[k])}
	case "other-block":
		if t.other == nil {
			return nil
		}
		return []*delivery{mk(j, t.other.bytes[j], t.other.aunts[j])}
	case "other-bytes-own-proof":
		if t.other == nil {
			return nil
		}
		return []*delivery{mk(j, t.other.bytes[j], a)}
	case "own-bytes-other-proof":
		if t.other == nil {
			return nil
		}
		return []*delivery{mk(j, b, t.other.aunts[j])}
	case "inner-preimage":
		// Second-preimage forgery: the bytes of the "part" are the pre-image of an inner node on the audit path
		// of part j (rlp(left)|rlp(right)), presented with the aunts below that node removed, at the index of
		// part j and at the leftmost index of the node's subtree. Only a verifier that ties the path length to
		// the shape fixed by (index,total) rejects it.
		if len(a) == 0 {
			return nil
		}
		var right []bool
		var los []int
		lo, n := 0, t.total
		for n > 1 {
			los = append(los, lo)
			nl := (n + 1) / 2
			if j-lo < nl {
				right = append(right, false)
				n = nl
			} else {
				right = append(right, true)
				lo += nl
				n -= nl
			}
		}
		if len(right) != len(a) {
			return nil
		}
		var out []*delivery
		h := crypto.Keccak256(b)
		for i := range a {
			l, rr := h, a[i]
			if right[len(right)-1-i] {
				l, rr = a[i], h
			}
			pre := append(append([]byte{}, rlpString(l)...), rlpString(rr)...)
			h = crypto.Keccak256(pre)
			out = append(out, mk(j, pre, cpAunts(a[i+1:])))
			if sub := los[len(right)-1-i]; sub != j {
				out = append(out, mk(sub, pre, cpAunts(a[i+1:])))
			}
		}
		return out
	}
	panic("unknown hostile kind " + kind)
}

func firstDiff(a, b []byte) int {
	for i := 0; i < len(a) && i < len(b); i++ {
		if a[i] != b[i] {
			return i
		}
	}
	if len(a) < len(b) {
		return len(a)
	}
	return len(b)
}

func safeAdd(ps *types.PartSet, p *types.Part) (added bool, err error, pan interface{}) {
	defer func() {
		if r := recover(); r != nil {
			pan = r
		}
	}()
	added, err = ps.AddPart(p)
	return
}

func safeNewFromHeader(h types.PartSetHeader) (ps *types.PartSet, pan interface{}) {
	defer func() {
		if r := recover(); r != nil {
			pan = r
		}
	}()
	return types.NewPartSetFromHeader(h), nil
}

type partsRun struct {
	c     *core.Ctx
	t     *truth
	hdr   types.PartSetHeader
	seen  map[string]bool
	kinds map[string]bool
	// did a forged delivery for index i arrive before the honest part i was accepted?
	hostileFirst int
	sampleLog    []string // first deliveries of the first schedule (for the evidence sample)
	schedules    int
}

func (p *partsRun) violation(key, detail string, wit interface{}) {
	if p.seen[key] {
		return
	}
	p.seen[key] = true
	p.c.Violation(key, detail, wit)
}

func permutations(n int) [][]int {
	var out [][]int
	var rec func(cur []int, used []bool)
	rec = func(cur []int, used []bool) {
		if len(cur) == n {
			out = append(out, append([]int{}, cur...))
			return
		}
		for i := 0; i < n; i++ {
			if !used[i] {
				used[i] = true
				rec(append(cur, i), used)
				used[i] = false
			}
		}
	}
	rec(nil, make([]bool, n))
	return out
}

// schedule runs one arrival order against a fresh receiver-side part set.
func (p *partsRun) schedule(r *rng.R, order []int, withhold map[int]bool, hostileRate float64, wireRT bool) {
	c, t := p.c, p.t
	rs, pan := safeNewFromHeader(p.hdr)
	if pan != nil {
		p.violation("newpartset/honest-header-panic", fmt.Sprintf("NewPartSetFromHeader(%d:%x) panicked: %v", p.hdr.Total, []byte(p.hdr.Hash), pan), nil)
		return
	}
	c.Count("schedules", 1)
	p.schedules++
	// build the delivery list
	var ds, late []*delivery
	someHostile := func(target int) {
		n := 1
		if r.Chance(0.3) {
			n = r.Range(2, 3)
		}
		for i := 0; i < n; i++ {
			ds = append(ds, t.hostile(r, hostileKinds[r.Intn(len(hostileKinds))], target)...)
		}
	}
	for _, i := range order {
		if r.Chance(hostileRate) {
			tgt := i
			if r.Chance(0.25) {
				tgt = r.Intn(t.total)
			}
			someHostile(tgt)
		}
		if withhold[i] {
			continue
		}
		ds = append(ds, &delivery{Kind: "honest", Src: i, Index: i, honest: true, bytes: t.bytes[i], aunts: t.aunts[i]})
		if r.Chance(0.2) { // duplicate, immediately or later
			d := &delivery{Kind: "duplicate", Src: i, Index: i, bytes: t.bytes[i], aunts: t.aunts[i]}
			if r.Bool() {
				ds = append(ds, d)
			} else {
				late = append(late, d)
			}
		}
		if r.Chance(hostileRate / 2) { // forgeries for an index that is already filled
			someHostile(i)
		}
	}
	ds = append(ds, late...)
	for i, n := 0, r.Intn(4); i < n; i++ { // late duplicates and late forgeries
		j := order[r.Intn(len(order))]
		if r.Bool() {
			ds = append(ds, &delivery{Kind: "duplicate", Src: j, Index: j, bytes: t.bytes[j], aunts: t.aunts[j]})
		} else {
			someHostile(j)
		}
	}

	model := map[int]bool{}
	var log []map[string]interface{}
	for _, d := range ds {
		part := d.part()
		if wireRT { // what a peer can actually deliver: the part as decoded from its wire encoding
			enc, err := ser.EncodeToBytes(part)
			if err != nil {
				c.Count("parts_not_wire_encodable", 1)
			} else {
				var q types.Part
				if err := ser.DecodeBytes(enc, &q); err != nil {
					c.Count("parts_not_wire_decodable/"+d.Kind, 1)
					continue
				}
				if q.Index != part.Index || !bytes.Equal(q.Bytes, part.Bytes) {
					c.Count("parts_changed_by_wire", 1)
				}
				part = &q
				c.Count("parts_via_wire", 1)
			}
		}
		idx := part.Index
		inRange, genuine, proofOK := t.judge(part)
		expect := genuine && proofOK && !model[idx]
		if !d.honest && d.Kind != "duplicate" {
			c.Count("hostile_deliveries", 1)
			c.Count("hostile/"+d.Kind, 1)
			p.kinds[d.Kind] = true
			if inRange && !model[idx] {
				p.hostileFirst++
				c.Count("hostile_before_honest", 1)
			}
			if genuine && proofOK {
				c.Count("hostile_but_identical_to_genuine", 1)
			}
		}
		added, err, pan := safeAdd(rs, part)
		c.Count("addpart_calls", 1)
		if p.schedules == 1 && len(p.sampleLog) < 14 {
			p.sampleLog = append(p.sampleLog, fmt.Sprintf("%s(src %d)@%d -> added=%v err=%v panic=%v", d.Kind, d.Src, idx, added, err, pan != nil))
		}
		if len(log) < 60 {
			log = append(log, map[string]interface{}{"kind": d.Kind, "src": d.Src, "index": idx, "added": added, "err": fmt.Sprint(err), "panic": pan != nil})
		}
		wit := func() interface{} {
			return map[string]interface{}{"part_size": t.sz, "total": t.total, "encoded_len": len(t.bz), "root": fmt.Sprintf("%x", t.root),
				"delivery": d, "part_bytes": short(part.Bytes), "aunts": len(part.Proof.Aunts), "wire_roundtrip": wireRT, "deliveries_so_far": log}
		}
		if pan != nil {
			c.Count("addpart_panics", 1)
			key := "addpart/panic/" + d.Kind
			if idx < 0 {
				key = "addpart/negative-index-panic"
			}
			p.violation(key, fmt.Sprintf("AddPart(Index=%d, total=%d, kind=%s) panicked: %v", idx, t.total, d.Kind, pan), wit())
			continue
		}
		switch {
		case added && !inRange:
			p.violation("addpart/out-of-range-index-added", fmt.Sprintf("index %d accepted, total %d", idx, t.total), wit())
		case added && !genuine:
			p.violation("addpart/forged-bytes-added/"+d.Kind, fmt.Sprintf("index %d: accepted %d bytes that differ from the proposer's %d bytes", idx, len(part.Bytes), len(t.bytes[idx])), wit())
		case added && !proofOK:
			p.violation("addpart/invalid-proof-accepted/"+d.Kind, fmt.Sprintf("index %d of %d: accepted with an audit path (%d aunts) that is not the proposer's path to the signed root", idx, t.total, len(part.Proof.Aunts)), wit())
		case added && model[idx]:
			p.violation("addpart/duplicate-added", fmt.Sprintf("index %d reported added twice", idx), wit())
		case !added && expect:
			p.violation("addpart/genuine-part-rejected", fmt.Sprintf("index %d of %d (%s): genuine part with valid proof rejected: %v", idx, t.total, d.Kind, err), wit())
		}
		if added {
			c.Count("parts_added", 1)
			if inRange {
				model[idx] = true
			}
		} else {
			c.Count("parts_refused", 1)
			if err != nil {
				c.Count("refused_with_error", 1)
			}
		}
		if rs.Count() != len(model) {
			p.violation("partset/count-mismatch", fmt.Sprintf("Count()=%d after %d distinct accepted indices", rs.Count(), len(model)), wit())
			return
		}
	}
	complete := len(model) == t.total
	if rs.IsComplete() != complete {
		p.violation("partset/complete-flag-wrong", fmt.Sprintf("IsComplete()=%v with %d of %d parts", rs.IsComplete(), len(model), t.total), log)
		return
	}
	ba := rs.BitArray()
	for i := 0; i < t.total; i++ {
		if ba.GetIndex(i) != model[i] {
			p.violation("partset/bitarray-wrong", fmt.Sprintf("bit %d = %v, accepted = %v", i, ba.GetIndex(i), model[i]), log)
			return
		}
	}
	if !complete {
		c.Count("schedules_incomplete", 1)
		return
	}
	c.Count("schedules_completed", 1)
	// the reader must yield exactly the proposer's bytes, whatever the read granularity
	for pass := 0; pass < 2; pass++ {
		rd := rs.GetReader()
		var got []byte
		stalls := 0
		for iter := 0; ; iter++ {
			n := 512
			if pass == 1 {
				n = r.Range(1, 3*t.sz+5)
			}
			buf := make([]byte, n)
			k, err := rd.Read(buf)
			got = append(got, buf[:k]...)
			if err == io.EOF {
				break
			}
			if err != nil {
				p.violation("reassembly/reader-error", fmt.Sprintf("read error %v after %d of %d bytes", err, len(got), len(t.bz)), log)
				return
			}
			if k == 0 {
				stalls++
			}
			if len(got) > len(t.bz)+64 || stalls > 8 || iter > 2*len(t.bz)+64 {
				p.violation("reassembly/reader-does-not-terminate", fmt.Sprintf("reader produced %d bytes in %d reads (%d empty) for an encoding of %d bytes and no EOF", len(got), iter+1, stalls, len(t.bz)), log)
				return
			}
		}
		if !bytes.Equal(got, t.bz) {
			key := "reassembly/bytes-differ"
			if pass == 1 {
				key = "reassembly/bytes-differ-chunked-read"
			}
			p.violation(key, fmt.Sprintf("completed set yields %d bytes, proposer encoded %d (first difference at %d)", len(got), len(t.bz), firstDiff(got, t.bz)), log)
			return
		}
	}
	// and decode the way consensus does
	var blk *types.Block
	if _, err := ser.DecodeReader(rs.GetReader(), &blk, int64(len(t.bz))+1024); err != nil || blk == nil {
		p.violation("reassembly/decode-fails", fmt.Sprintf("DecodeReader over the completed set: %v", err), log)
		return
	}
	c.Count("reassembled_blocks_decoded", 1)
}

func runParts(c *core.Ctx) {
	r := c.Rng
	szKind := []string{"1", "7", "64", "64", "4096", "4096", "65536", "len", "len+1", "256", "1000"}[r.Intn(11)]
	w := newWorld(r, r.Range(4, 10))
	var sp blockSpec
	switch szKind {
	case "1", "7":
		sp = blockSpec{NTx: r.Intn(2), NEv: 0, MaxPayload: 8}
		if szKind == "7" {
			sp = blockSpec{NTx: r.Intn(6), NEv: r.Intn(2), MaxPayload: 40}
		}
		w.vals = w.vals[:4]
	case "64", "256":
		sp = blockSpec{NTx: r.Range(0, 12), NEv: r.Range(0, 2), MaxPayload: 100}
	default:
		sp = blockSpec{NTx: r.Range(0, 40), NEv: r.Range(0, 4), MaxPayload: []int{40, 400, 3000, 12000}[r.Intn(4)]}
	}
	blk, info := w.genBlock(sp)
	bz, err := ser.EncodeToBytes(blk)
	if err != nil {
		c.Inconclusive("generated block does not encode: " + err.Error())
		return
	}
	info.Len = len(bz)
	var sz int
	switch szKind {
	case "len":
		sz = len(bz)
	case "len+1":
		sz = len(bz) + 1
	default:
		fmt.Sscanf(szKind, "%d", &sz)
	}
	if r.Chance(0.15) && len(bz) > 8 { // few parts: exhaustive orders apply
		sz = (len(bz) + r.Range(2, 5) - 1) / r.Range(2, 5)
		if sz < 1 {
			sz = 1
		}
		szKind = "few"
	}
	c.Count("partsize/"+szKind, 1)
	ps := blk.MakePartSet(sz)
	hdr := ps.Header()
	t := &truth{total: hdr.Total, sz: sz, bz: bz, root: append([]byte{}, hdr.Hash...)}
	t.bytes, t.aunts = takeParts(ps)
	c.Max("parts_total", int64(t.total))

	pr := &partsRun{c: c, t: t, hdr: hdr, seen: map[string]bool{}, kinds: map[string]bool{}}
	// proposer side against the harness's own chunking
	wantTotal := (len(bz) + sz - 1) / sz
	if t.total != wantTotal || len(t.bytes) != wantTotal {
		pr.violation("makepartset/total-wrong", fmt.Sprintf("%d bytes at part size %d: header says %d parts, expected %d", len(bz), sz, t.total, wantTotal), nil)
		return
	}
	t.refUsable = true
	for i := range t.bytes {
		lo, hi := i*sz, (i+1)*sz
		if hi > len(bz) {
			hi = len(bz)
		}
		if !bytes.Equal(t.bytes[i], bz[lo:hi]) {
			pr.violation("makepartset/part-bytes-wrong", fmt.Sprintf("proposer part %d is not bytes [%d,%d) of the encoding", i, lo, hi), nil)
			return
		}
		if !bytes.Equal(refRoot(i, t.total, crypto.Keccak256(t.bytes[i]), t.aunts[i]), t.root) {
			t.refUsable = false // the repo's tree is not the harness's model of it: rely on proof identity alone
		}
	}
	if t.refUsable {
		c.Count("reference_tree_agrees", 1)
	} else {
		c.Count("diag_reference_tree_disagrees", 1)
	}
	// a different block with the same number of parts (same length: only fixed-width fields differ)
	{
		ob, err := decodeBlock(bz)
		if err == nil {
			ob.StateHash = w.hash()
			ob.ReceiptHash = w.hash()
			ob.Header.Coinbase = w.address()
			if len(ob.Data.Txs) > 0 {
				ob.Data.Txs = append(append(types.Txs{}, ob.Data.Txs[1:]...), ob.Data.Txs[0])
				ob.DataHash = ob.Data.Hash()
			}
			ops := ob.MakePartSet(sz)
			if ops.Total() == t.total && !bytes.Equal(ops.Hash(), t.root) {
				o := &truth{total: t.total, sz: sz, root: append([]byte{}, ops.Hash()...)}
				o.bytes, o.aunts = takeParts(ops)
				t.other = o
				c.Count("other_block_available", 1)
			}
		}
	}

	// hostile part-set headers (a panic here belongs to C16's scope: counted, never a C12 violation)
	for _, tot := range []int{-1, -t.total, math.MinInt64, math.MaxInt64} {
		_, pan := safeNewFromHeader(types.PartSetHeader{Total: tot, Hash: hdr.Hash})
		c.Count("c16scope_newpartset_hostile_headers", 1)
		if pan != nil {
			c.Count("c16scope_newpartset_panics", 1)
			if tot < 0 {
				c.Count("c16scope_newpartset_panics_negative_total", 1)
			} else {
				c.Count("c16scope_newpartset_panics_huge_total", 1)
			}
		}
	}

	thorough := c.Tier == "thorough"
	var orders [][]int
	if t.total <= 5 {
		orders = permutations(t.total)
		c.Count("exhaustive_order_cases", 1)
	} else {
		n := 3
		if thorough {
			n = 6
		}
		for i := 0; i < n; i++ {
			orders = append(orders, r.Perm(t.total))
		}
		// in-order and reverse order are the classic ones
		id := make([]int, t.total)
		rev := make([]int, t.total)
		for i := range id {
			id[i] = i
			rev[i] = t.total - 1 - i
		}
		orders = append(orders, id, rev)
	}
	// first every hostile kind against an empty receiver set (gives the smallest witnesses)
	{
		pr.sweep(r, []int{0, t.total - 1, r.Intn(t.total)})
	}
	for si, order := range orders {
		withhold := map[int]bool{}
		if r.Chance(0.12) {
			for i, n := 0, r.Range(1, 2); i < n; i++ {
				withhold[r.Intn(t.total)] = true
			}
		}
		rate := 0.6
		if t.total > 64 {
			rate = 12.0 / float64(t.total)
		}
		pr.schedule(r, order, withhold, rate, si%2 == 1)
	}
	pr.degenerateRoots(r, t)
	if t.total >= 2 && len(pr.kinds) >= 3 && pr.hostileFirst >= 1 {
		c.Nontrivial(fmt.Sprintf("p%x-%d", crypto.Keccak256(bz)[:8], sz))
	}
	if c.Index%250 == 1 {
		c.Sample(map[string]interface{}{"case": "parts", "block": info, "part_size": sz, "parts": t.total, "orders": len(orders), "hostile_kinds": len(pr.kinds), "first_schedule_prefix": pr.sampleLog})
	}
}

// degenerateRoots: a Byzantine proposer signs whatever part-set header it likes, also one whose root is empty or
// not a hash at all (nothing between the wire and AddPart looks at the root's length). No part can prove
// membership under such a root: every genuine part, with its genuine proof, without proof, and with a proof of
// the wrong shape, must be refused.
func (p *partsRun) degenerateRoots(r *rng.R, t *truth) {
	roots := map[string][]byte{"nil": nil, "empty": {}, "one-byte": {byte(r.Intn(256))}, "31-bytes": r.Bytes(31)}
	names := []string{"nil", "empty", "one-byte", "31-bytes"}
	for _, name := range names {
		ps, pan := safeNewFromHeader(types.PartSetHeader{Total: t.total, Hash: roots[name]})
		if pan != nil || ps == nil {
			p.c.Count("degenerate_root_header_refused", 1)
			continue
		}
		for i := 0; i < t.total && i < 6; i++ {
			for _, shape := range []string{"genuine-proof", "no-proof", "one-random-aunt"} {
				part := &types.Part{Index: i, Bytes: append([]byte{}, t.bytes[i]...)}
				switch shape {
				case "genuine-proof":
					part.Proof.Aunts = cpAunts(t.aunts[i])
				case "one-random-aunt":
					part.Proof.Aunts = [][]byte{r.Bytes(32)}
				}
				added, err, pan := safeAdd(ps, part)
				p.c.Count("degenerate_root_deliveries", 1)
				if pan != nil {
					p.violation("addpart/panic-under-degenerate-root/"+name, fmt.Sprintf("AddPart panicked for part %d (%s) under a signed header with root %q: %v", i, shape, name, pan), nil)
					return
				}
				if added {
					p.violation("addpart/accepted-under-degenerate-root/"+name+"/"+shape, fmt.Sprintf("part %d of %d (%s) was accepted under a part-set header whose root is %s (%x): no proof can lead to it (err=%v)", i, t.total, shape, name, roots[name], err), nil)
					return
				}
			}
		}
	}
}

// sweep: every hostile kind for the given source indices against an empty receiver set; this
// guarantees each kind is exercised on an unfilled index in every case.
func (p *partsRun) sweep(r *rng.R, srcs []int) {
	t := p.t
	rs, pan := safeNewFromHeader(p.hdr)
	if pan != nil {
		return
	}
	for n, j := range srcs {
		for _, k := range hostileKinds {
			ds := t.hostile(r, k, j)
			if n == 0 && k == "index-negative" { // the canonical probe: the genuine part 0 re-labelled -1, as decoded from its wire form
				ds = append([]*delivery{{Kind: k, Src: 0, Index: -1, bytes: t.bytes[0], aunts: t.aunts[0]}}, ds...)
			}
			for di, d := range ds {
				part := d.part()
				viaWire := false
				if n == 0 && di == 0 {
					if enc, err := ser.EncodeToBytes(part); err == nil {
						var q types.Part
						if ser.DecodeBytes(enc, &q) == nil && q.Index == part.Index {
							part = &q
							viaWire = true
							p.c.Count("sweep_parts_via_wire", 1)
							if part.Index < 0 {
								p.c.Count("negative_index_survives_wire_encoding", 1)
							}
						}
					}
				}
				idx := part.Index
				inRange, genuine, proofOK := t.judge(part)
				added, err, pan := safeAdd(rs, part)
				p.c.Count("addpart_calls", 1)
				p.c.Count("sweep_deliveries", 1)
				p.c.Count("hostile/"+k, 1)
				p.kinds[k] = true
				wit := map[string]interface{}{"part_size": t.sz, "total": t.total, "encoded_len": len(t.bz), "root": fmt.Sprintf("%x", t.root),
					"delivery": d, "part_bytes": short(part.Bytes), "aunts": len(part.Proof.Aunts), "receiver_set": "empty (sweep)", "part_decoded_from_its_wire_encoding": viaWire}
				switch {
				case pan != nil:
					p.c.Count("addpart_panics", 1)
					key := "addpart/panic/" + k
					if idx < 0 {
						key = "addpart/negative-index-panic"
					}
					p.violation(key, fmt.Sprintf("AddPart(Index=%d, total=%d, kind=%s) panicked: %v", idx, t.total, k, pan), wit)
				case added && !inRange:
					p.violation("addpart/out-of-range-index-added", fmt.Sprintf("index %d accepted, total %d", idx, t.total), wit)
				case added && !genuine:
					p.violation("addpart/forged-bytes-added/"+k, fmt.Sprintf("index %d: accepted %d bytes that differ from the proposer's %d bytes", idx, len(part.Bytes), len(t.bytes[idx])), wit)
				case added && !proofOK:
					p.violation("addpart/invalid-proof-accepted/"+k, fmt.Sprintf("index %d of %d: accepted with an audit path (%d aunts) that is not the proposer's path to the signed root", idx, t.total, len(part.Proof.Aunts)), wit)
				case added:
					// identical to the genuine part (possible when parts repeat): start over with a clean set
					p.c.Count("hostile_but_identical_to_genuine", 1)
					rs, _ = safeNewFromHeader(p.hdr)
				default:
					_ = err
					p.c.Count("parts_refused", 1)
				}
			}
		}
	}
}
