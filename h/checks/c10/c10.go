// Package c10: the trie root is canonical and proofs are sound (DESIGN.md §5 C10).
package c10

import (
	"bytes"
	"fmt"
	"sort"

	"github.com/lianxiangcloud/linkchain/libs/common"
	"github.com/lianxiangcloud/linkchain/libs/crypto"
	dbm "github.com/lianxiangcloud/linkchain/libs/db"
	"github.com/lianxiangcloud/linkchain/libs/trie"

	"verif/h/internal/core"
	"verif/h/internal/rng"
)

func init() {
	core.Register(&core.Check{
		ID:        "C10",
		Level:     "exploration",
		Technique: "differential monitoring of real trie executions against a content map (canonical-root, lookup, iteration, proof soundness oracles)",
		Rule: "case = random history of update/delete/get/commit/reopen on a plain or secure trie over prefix-heavy keys; oracles after the history: " +
			"root == root of fresh trie built from sorted final content == roots of K permuted/detoured rebuilds, TryGet == content, iteration == sorted content, " +
			"proofs verify iff claim true, every single-node tampering of every proof never yields a wrong value. " +
			"non-trivial = final content has >=3 keys with a shared prefix or prefix-of-another key and >=1 commit+reopen happened; distinct by hash of the op sequence",
		Assumptions: []string{"keccak and the ser encoder are trusted as black boxes", "proof = list of node blobs; the verifier's node db is keyed by keccak(blob) (what light clients do)"},
		Cases: func(tier string) int {
			if tier == "thorough" {
				return 60000
			}
			return 1500
		},
		Run: run,
		Floors: func(tier string) map[string]int64 {
			return map[string]int64{"proofs_verified": 1000, "proof_tamperings": 2000, "reopens": 100, "permuted_rebuilds": 1000, "secure_tries": 100, "copies_verified": 300, "proofs_with_pending_writes_verified": 2000,
				"gc_histories": 250, "gc_equal_consecutive_roots": 150, "gc_states_dereferenced": 1200, "gc_reads_of_referenced_roots": 20000}
		},
		PanicIsViolation: true,
		Init:             core.QuietLogs,
	})
}

type op struct {
	Kind string `json:"k"`
	Key  string `json:"key,omitempty"`
	Val  string `json:"val,omitempty"`
}

func genKey(r *rng.R, pool *[][]byte) []byte {
	if len(*pool) > 0 && r.Chance(0.6) {
		base := (*pool)[r.Intn(len(*pool))]
		switch r.Intn(5) {
		case 0:
			return base
		case 1: // extend
			return append(append([]byte{}, base...), r.Bytes(r.Range(1, 3))...)
		case 2: // truncate (prefix of another key)
			if len(base) > 1 {
				return append([]byte{}, base[:r.Range(1, len(base)-1)]...)
			}
			return base
		case 3: // flip last nibble
			k := append([]byte{}, base...)
			k[len(k)-1] ^= byte(1 << uint(r.Intn(8)))
			return k
		default: // long shared prefix
			k := append([]byte{}, base...)
			for len(k) < 40 {
				k = append(k, base...)
			}
			k = k[:r.Range(33, 40)]
			k[len(k)-1] = byte(r.Intn(256))
			return k
		}
	}
	n := []int{1, 1, 2, 3, 4, 8, 20, 32, 33, 64}[r.Intn(10)]
	k := r.Bytes(n)
	if r.Chance(0.3) { // small alphabet => shared nibbles
		for i := range k {
			k[i] &= 0x11
		}
	}
	*pool = append(*pool, k)
	return k
}

type tr interface {
	TryGet(key []byte) ([]byte, error)
	TryUpdate(key, value []byte) error
	TryDelete(key []byte) error
	Hash() common.Hash
	Prove(key []byte, fromLevel uint, proofDb dbm.Putter) error
	NodeIterator(start []byte) trie.NodeIterator
}

type secureWrap struct{ *trie.SecureTrie }

type trieCopy struct {
	t    tr
	snap map[string][]byte
	at   int
}

type proofList [][]byte

func (p *proofList) Put(key []byte, value []byte) error {
	*p = append(*p, append([]byte{}, value...))
	return nil
}

type proofDB map[string][]byte

func (p proofDB) Load(key []byte) ([]byte, error) { return p[string(key)], nil }
func (p proofDB) Exist(key []byte) (bool, error)  { _, ok := p[string(key)]; return ok, nil }

func dbOf(nodes [][]byte) proofDB {
	d := proofDB{}
	for _, n := range nodes {
		d[string(crypto.Keccak256(n))] = n
	}
	return d
}

func openTrie(secure bool, root common.Hash, db *trie.Database, limit uint16) (tr, *trie.Trie, *trie.SecureTrie, error) {
	if secure {
		s, err := trie.NewSecure(root, db, limit)
		if err != nil {
			return nil, nil, nil, err
		}
		return s, nil, s, nil
	}
	t, err := trie.New(root, db)
	if err != nil {
		return nil, nil, nil, err
	}
	t.SetCacheLimit(limit)
	return t, t, nil, nil
}

func buildRoot(secure bool, keys []string, content map[string][]byte, detour *rng.R) (common.Hash, error) {
	db := trie.NewDatabase(dbm.NewMemDB())
	t, _, _, err := openTrie(secure, common.EmptyHash, db, 0)
	if err != nil {
		return common.Hash{}, err
	}
	for _, k := range keys {
		if detour != nil && detour.Chance(0.2) {
			// insert-then-delete detour with a neighbouring key
			dk := append([]byte(k), byte(detour.Intn(256)))
			if _, ok := content[string(dk)]; !ok {
				t.TryUpdate(dk, []byte("detour"))
				t.TryUpdate([]byte(k), content[k])
				t.TryDelete(dk)
				continue
			}
		}
		if detour != nil && detour.Chance(0.1) {
			t.TryUpdate([]byte(k), []byte("old-value-to-overwrite"))
		}
		if err := t.TryUpdate([]byte(k), content[k]); err != nil {
			return common.Hash{}, err
		}
	}
	return t.Hash(), nil
}

func run(c *core.Ctx) {
	if c.Index%5 == 4 {
		gcLane(c, c.Rng.Split())
		if c.Violated() {
			return
		}
	}
	r := c.Rng
	secure := r.Chance(0.35)
	limit := uint16([]int{0, 0, 1, 2, 120}[r.Intn(5)])
	disk := dbm.NewMemDB()
	tdb := trie.NewDatabase(disk)
	t, plain, sec, err := openTrie(secure, common.EmptyHash, tdb, limit)
	if err != nil {
		c.Violation("open/empty", err.Error(), nil)
		return
	}
	if secure {
		c.Count("secure_tries", 1)
	}
	content := map[string][]byte{}
	var pool [][]byte
	var ops []op
	var copies []trieCopy
	nops := r.Range(5, 120)
	reopens := 0
	for i := 0; i < nops; i++ {
		x := r.Intn(100)
		switch {
		case x < 50:
			k := genKey(r, &pool)
			v := r.Bytes([]int{1, 1, 2, 8, 31, 32, 33, 100}[r.Intn(8)])
			if r.Chance(0.08) {
				v = nil // empty value = delete
			}
			if err := t.TryUpdate(k, v); err != nil {
				c.Violation("update/error", err.Error(), ops)
				return
			}
			if len(v) == 0 {
				delete(content, string(k))
			} else {
				content[string(k)] = v
			}
			ops = append(ops, op{"put", fmt.Sprintf("%x", k), fmt.Sprintf("%x", v)})
		case x < 68:
			k := genKey(r, &pool)
			if err := t.TryDelete(k); err != nil {
				c.Violation("delete/error", err.Error(), ops)
				return
			}
			delete(content, string(k))
			ops = append(ops, op{"del", fmt.Sprintf("%x", k), ""})
		case x < 82:
			k := genKey(r, &pool)
			got, err := t.TryGet(k)
			c.Count("gets", 1)
			if err != nil || !bytes.Equal(got, content[string(k)]) {
				c.Violation("get/mismatch", fmt.Sprintf("key %x got %x want %x err %v", k, got, content[string(k)], err), ops)
				return
			}
		case x < 86:
			t.Hash()
			ops = append(ops, op{Kind: "hash"})
		case x < 89 && len(copies) < 3:
			// a struct copy shares nodes with the original (copy-on-write): the state layer takes such
			// copies (SecureTrie.Copy, `cpy := *t`) as snapshots; both sides must evolve independently
			var ct tr
			if secure {
				ct = sec.Copy()
			} else {
				cp := *plain
				ct = &cp
			}
			snap := map[string][]byte{}
			for k, v := range content {
				snap[k] = v
			}
			copies = append(copies, trieCopy{ct, snap, len(ops)})
			c.Count("copies_taken", 1)
			ops = append(ops, op{Kind: "copy"})
		default:
			var root common.Hash
			var err error
			if secure {
				root, err = sec.Commit(nil, uint64(i))
			} else {
				root, err = plain.Commit(nil)
			}
			if err != nil {
				c.Violation("commit/error", err.Error(), ops)
				return
			}
			c.Count("commits", 1)
			ops = append(ops, op{Kind: "commit"})
			if r.Chance(0.6) {
				if err := tdb.Commit(root, false); err != nil {
					c.Violation("dbcommit/error", err.Error(), ops)
					return
				}
				if r.Chance(0.5) {
					tdb = trie.NewDatabase(disk) // drop the in-memory node cache as a restart would
				}
				t, plain, sec, err = openTrie(secure, root, tdb, limit)
				if err != nil {
					c.Violation("reopen/error", fmt.Sprintf("root %x: %v", root, err), ops)
					return
				}
				reopens++
				c.Count("reopens", 1)
				ops = append(ops, op{Kind: "reopen"})
			}
		}
	}
	// proofs taken while writes are still pending (before any Hash/Commit of the last changes) must verify
	// against the root computed afterwards
	type pending struct {
		key []byte
		pl  proofList
	}
	var pend []pending
	for p := 0; p < 3; p++ {
		var k []byte
		if len(content) > 0 && r.Chance(0.6) {
			i := r.Intn(len(content))
			for kk := range content {
				if i == 0 {
					k = []byte(kk)
					break
				}
				i--
			}
			// deterministic choice regardless of map order
			ks := make([]string, 0, len(content))
			for kk := range content {
				ks = append(ks, kk)
			}
			sort.Strings(ks)
			k = []byte(ks[r.Intn(len(ks))])
		} else {
			k = genKey(r, &pool)
		}
		vk := k
		if secure {
			vk = crypto.Keccak256(k)
		}
		var pl proofList
		if err := t.Prove(vk, 0, &pl); err != nil {
			c.Violation("prove/error-with-pending-writes", err.Error(), ops)
			return
		}
		pend = append(pend, pending{k, pl})
	}
	root := t.Hash()
	for _, pp := range pend {
		vk := pp.key
		if secure {
			vk = crypto.Keccak256(pp.key)
		}
		truth := content[string(pp.key)]
		val, _, err := safeVerify(root, vk, dbOf(pp.pl))
		c.Count("proofs_with_pending_writes_verified", 1)
		if err != nil || !bytes.Equal(val, truth) {
			c.Violation("proof/taken-with-pending-writes-rejected-or-wrong", fmt.Sprintf("key %x truth %x got %x err %v (%d proof nodes)", pp.key, truth, val, err, len(pp.pl)), ops)
			return
		}
	}
	// copies taken during the history still hold exactly the content they were taken with
	for ci, cp := range copies {
		ck := make([]string, 0, len(cp.snap))
		for k := range cp.snap {
			ck = append(ck, k)
		}
		sort.Strings(ck)
		for _, k := range ck {
			got, err := cp.t.TryGet([]byte(k))
			if err != nil || !bytes.Equal(got, cp.snap[k]) {
				c.Violation("copy/original-writes-visible-in-copy", fmt.Sprintf("copy %d (taken at op %d): key %x got %x want %x err %v", ci, cp.at, k, got, cp.snap[k], err), ops)
				return
			}
		}
		for k := range content {
			if _, ok := cp.snap[k]; !ok {
				if got, _ := cp.t.TryGet([]byte(k)); got != nil {
					c.Violation("copy/original-writes-visible-in-copy", fmt.Sprintf("copy %d (taken at op %d): key %x written later to the original is visible in the copy", ci, cp.at, k), ops)
					return
				}
			}
		}
		wantRoot, err := buildRoot(secure, ck, cp.snap, nil)
		c.Count("copies_verified", 1)
		if err != nil || cp.t.Hash() != wantRoot {
			c.Violation("copy/root-differs-from-content", fmt.Sprintf("copy %d (taken at op %d): root %x, canonical root of its content %x", ci, cp.at, cp.t.Hash(), wantRoot), ops)
			return
		}
		// and writes to the copy do not reach the original
		nk := append([]byte("copy-only-"), byte(ci))
		cp.t.TryUpdate(nk, []byte("x"))
		if got, _ := t.TryGet(nk); got != nil {
			c.Violation("copy/copy-writes-visible-in-original", fmt.Sprintf("copy %d: a key written to the copy is visible in the original", ci), ops)
			return
		}
	}
	if t.Hash() != root {
		c.Violation("copy/original-root-changed-by-copy-activity", "root of the original changed while only its copies were used", ops)
		return
	}
	keys := make([]string, 0, len(content))
	for k := range content {
		keys = append(keys, k)
	}
	sort.Strings(keys)

	// canonical root
	want, err := buildRoot(secure, keys, content, nil)
	if err != nil || want != root {
		c.Violation("root/not-canonical", fmt.Sprintf("history root %x, sorted rebuild %x err=%v (%d keys)", root, want, err, len(keys)), ops)
		return
	}
	nperm := 2
	if c.Tier == "thorough" {
		nperm = 4
	}
	for p := 0; p < nperm && len(keys) > 1; p++ {
		perm := r.Perm(len(keys))
		pk := make([]string, len(keys))
		for i, j := range perm {
			pk[i] = keys[j]
		}
		got, err := buildRoot(secure, pk, content, r.Split())
		c.Count("permuted_rebuilds", 1)
		if err != nil || got != root {
			c.Violation("root/order-dependent", fmt.Sprintf("permuted rebuild %x != %x err=%v", got, root, err), map[string]interface{}{"ops": ops, "perm": perm})
			return
		}
	}
	// lookups
	for _, k := range keys {
		got, err := t.TryGet([]byte(k))
		if err != nil || !bytes.Equal(got, content[k]) {
			c.Violation("get/final-mismatch", fmt.Sprintf("key %x got %x want %x err %v", k, got, content[k], err), ops)
			return
		}
	}
	// iteration
	it := trie.NewIterator(t.NodeIterator(nil))
	var seen []string
	seenVal := map[string][]byte{}
	for it.Next() {
		seen = append(seen, string(it.Key))
		seenVal[string(it.Key)] = append([]byte{}, it.Value...)
	}
	expect := make([]string, 0, len(keys))
	ev := map[string][]byte{}
	for _, k := range keys {
		ik := k
		if secure {
			ik = string(crypto.Keccak256([]byte(k)))
		}
		expect = append(expect, ik)
		ev[ik] = content[k]
	}
	sort.Strings(expect)
	c.Count("iterations", 1)
	if len(seen) != len(expect) {
		c.Violation("iter/count", fmt.Sprintf("iterated %d keys, content has %d", len(seen), len(expect)), ops)
		return
	}
	for i := range seen {
		if seen[i] != expect[i] || !bytes.Equal(seenVal[seen[i]], ev[expect[i]]) {
			// classify: same content, and the order is "a key that is a strict prefix of other keys comes
			// after all its extensions" (branch value slot visited last) and otherwise lexicographic?
			alt := append([]string{}, expect...)
			sort.Slice(alt, func(a, b int) bool { return termLast(alt[a]) < termLast(alt[b]) })
			same := true
			for j := range seen {
				if seen[j] != alt[j] || !bytes.Equal(seenVal[seen[j]], ev[alt[j]]) {
					same = false
					break
				}
			}
			if same {
				c.Violation("iter/prefix-key-after-its-extensions", fmt.Sprintf("position %d: got %x want %x (content equal; only keys that are strict prefixes of other keys are out of lexicographic order)", i, seen[i], expect[i]), ops)
				c.Count("iter_prefix_order_witnesses", 1)
				break // keep going: the other oracles still apply to this history
			}
			c.Violation("iter/order-or-value", fmt.Sprintf("position %d: got %x want %x", i, seen[i], expect[i]), ops)
			return
		}
	}
	// proofs
	nproof := 6
	for p := 0; p < nproof; p++ {
		var k []byte
		if len(keys) > 0 && r.Chance(0.6) {
			k = []byte(keys[r.Intn(len(keys))])
		} else {
			k = genKey(r, &pool)
		}
		truth := content[string(k)]
		var pl proofList
		vk := k
		if secure {
			vk = crypto.Keccak256(k) // SecureTrie.Prove takes the hashed key (as in go-ethereum)
		}
		if err := t.Prove(vk, 0, &pl); err != nil {
			c.Violation("prove/error", err.Error(), ops)
			return
		}
		val, _, err := trie.VerifyProof(root, vk, dbOf(pl))
		c.Count("proofs_verified", 1)
		if err != nil || !bytes.Equal(val, truth) {
			var hs []string
			for _, n := range pl {
				hs = append(hs, fmt.Sprintf("%x/%d", crypto.Keccak256(n)[:6], len(n)))
			}
			c.Violation("proof/honest-rejected-or-wrong", fmt.Sprintf("key %x truth %x got %x err %v secure=%v limit=%d root=%x nodes=%v", k, truth, val, err, secure, limit, root, hs), ops)
			return
		}
		if truth == nil {
			c.Count("absence_proofs", 1)
		}
		// tamperings: every node, several mutations
		for ni := range pl {
			for m := 0; m < 5; m++ {
				tp := make([][]byte, len(pl))
				for i := range pl {
					tp[i] = append([]byte{}, pl[i]...)
				}
				switch m {
				case 0:
					tp[ni][r.Intn(len(tp[ni]))] ^= byte(1 << uint(r.Intn(8)))
				case 1:
					tp = append(tp[:ni], tp[ni+1:]...)
				case 2:
					tp[ni] = tp[ni][:r.Intn(len(tp[ni]))]
				case 3:
					tp[ni] = append(tp[ni], byte(r.Intn(256)))
				case 4:
					if len(pl) > 1 {
						tp[ni] = append([]byte{}, pl[(ni+1)%len(pl)]...)
					} else {
						tp[ni][len(tp[ni])-1] ^= 0xff
					}
				}
				val, _, err := safeVerify(root, vk, dbOf(tp))
				c.Count("proof_tamperings", 1)
				if err == nil && !bytes.Equal(val, truth) {
					c.Violation("proof/tampered-accepted", fmt.Sprintf("key %x truth %x tampered proof yields %x (node %d mutation %d)", k, truth, val, ni, m), ops)
					return
				}
				if err != nil {
					c.Count("tampered_rejected", 1)
				}
			}
		}
		// the same proof against the root of a different content
		if len(keys) > 0 && truth != nil {
			c2 := map[string][]byte{}
			for kk, vv := range content {
				c2[kk] = vv
			}
			c2[string(k)] = append(append([]byte{}, truth...), 0x01)
			root2, _ := buildRoot(secure, keys, c2, nil)
			val, _, err := safeVerify(root2, vk, dbOf(pl))
			c.Count("cross_root_checks", 1)
			if err == nil && bytes.Equal(val, truth) {
				c.Violation("proof/verifies-under-other-root", fmt.Sprintf("key %x old value verified under a root committing to another value", k), ops)
				return
			}
		}
	}
	// non-triviality
	shared := 0
	for i := 1; i < len(keys); i++ {
		a, b := keys[i-1], keys[i]
		if len(a) > 0 && len(b) > 0 && a[0] == b[0] {
			shared++
		}
	}
	if shared >= 2 && reopens >= 1 {
		h := crypto.Keccak256([]byte(fmt.Sprintf("%v", ops)))
		c.Nontrivial(fmt.Sprintf("%x", h[:8]))
	}
	if c.Index%400 == 0 {
		s := ops
		if len(s) > 12 {
			s = s[:12]
		}
		c.Sample(map[string]interface{}{"secure": secure, "cachelimit": limit, "ops_prefix": s, "final_keys": len(keys), "root": fmt.Sprintf("%x", root)})
	}
}

// termLast maps a key to its nibble string with a terminator that sorts after every nibble.
func termLast(k string) string {
	b := make([]byte, 0, 2*len(k)+1)
	for i := 0; i < len(k); i++ {
		b = append(b, k[i]>>4, k[i]&15)
	}
	return string(append(b, 16))
}

func safeVerify(root common.Hash, key []byte, db proofDB) (val []byte, n int, err error) {
	defer func() {
		if r := recover(); r != nil {
			err = fmt.Errorf("panic: %v", r)
			panic(r) // a panic while verifying a hostile proof is itself a finding (PanicIsViolation)
		}
	}()
	return trie.VerifyProof(root, key, db)
}
