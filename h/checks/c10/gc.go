package c10

import (
	"bytes"
	"fmt"
	"sort"

	"github.com/lianxiangcloud/linkchain/libs/common"
	dbm "github.com/lianxiangcloud/linkchain/libs/db"
	"github.com/lianxiangcloud/linkchain/libs/trie"

	"verif/h/internal/core"
	"verif/h/internal/rng"
)

// gcLane: the node cache of libs/trie/database.go keeps committed-but-unflushed tries alive by reference counts
// (Reference from the meta root per retained state, Dereference when a state leaves the retention window).
// A chain of states is committed with small, empty and reverting changes between them (equal consecutive
// roots, A -> B -> A), each referenced once and dereferenced once when it leaves the window; some are flushed.
// Oracle: a root the model still counts as referenced (or that was flushed) opens and returns exactly the
// content it committed to, whatever was collected in between.
func gcLane(c *core.Ctx, r *rng.R) {
	disk := dbm.NewMemDB()
	tdb := trie.NewDatabase(disk)
	t, err := trie.New(common.EmptyHash, tdb)
	if err != nil {
		c.Violation("gc/open-empty", err.Error(), nil)
		return
	}
	content := map[string][]byte{}
	var pool [][]byte
	type state struct {
		root common.Hash
		snap map[string][]byte
	}
	refs := map[common.Hash]int{}
	flushed := map[common.Hash]bool{}
	snaps := map[common.Hash]map[string][]byte{}
	var window []state
	var hist []string
	retention := r.Range(1, 4)
	var earlier []map[string][]byte
	steps := r.Range(6, 16)
	for s := 0; s < steps; s++ {
		switch x := r.Intn(10); {
		case x < 2:
			hist = append(hist, "no-change") // an empty block: same root again
		case x < 4 && len(earlier) > 0:
			// back to an earlier content
			want := earlier[r.Intn(len(earlier))]
			for k := range content {
				if _, ok := want[k]; !ok {
					t.TryDelete([]byte(k))
					delete(content, k)
				}
			}
			ks := make([]string, 0, len(want))
			for k := range want {
				ks = append(ks, k)
			}
			sort.Strings(ks)
			for _, k := range ks {
				t.TryUpdate([]byte(k), want[k])
				content[k] = want[k]
			}
			hist = append(hist, "back-to-earlier-content")
		default:
			for i, n := 0, r.Range(1, 6); i < n; i++ {
				k := genKey(r, &pool)
				if r.Chance(0.25) {
					t.TryDelete(k)
					delete(content, string(k))
				} else {
					v := r.Bytes([]int{1, 8, 32, 33, 100}[r.Intn(5)])
					t.TryUpdate(k, v)
					content[string(k)] = v
				}
			}
			hist = append(hist, "change")
		}
		root, err := t.Commit(nil)
		if err != nil {
			c.Violation("gc/commit-error", err.Error(), hist)
			return
		}
		snap := map[string][]byte{}
		for k, v := range content {
			snap[k] = v
		}
		earlier = append(earlier, snap)
		snaps[root] = snap
		tdb.Reference(root, common.EmptyHash)
		refs[root]++
		window = append(window, state{root, snap})
		c.Count("gc_states_referenced", 1)
		if len(window) >= 2 && window[len(window)-2].root == root {
			c.Count("gc_equal_consecutive_roots", 1)
		}
		if r.Chance(0.15) {
			if err := tdb.Commit(root, false); err != nil {
				c.Violation("gc/flush-error", err.Error(), hist)
				return
			}
			flushed[root] = true
			hist = append(hist, fmt.Sprintf("flush(%x)", root[:4]))
		}
		for len(window) > retention {
			old := window[0]
			window = window[1:]
			tdb.Dereference(old.root)
			refs[old.root]--
			c.Count("gc_states_dereferenced", 1)
			hist = append(hist, fmt.Sprintf("deref(%x)", old.root[:4]))
		}
		// every root that is still referenced (or on disk) must read back its content
		var live []common.Hash
		for h, n := range refs {
			if n > 0 || flushed[h] {
				live = append(live, h)
			}
		}
		sort.Slice(live, func(i, j int) bool { return bytes.Compare(live[i][:], live[j][:]) < 0 })
		for _, h := range live {
			if h == common.EmptyHash || len(snaps[h]) == 0 {
				continue
			}
			w := map[string]interface{}{"history": hist, "root": fmt.Sprintf("%x", h), "model_references": refs[h], "flushed": flushed[h], "retention": retention}
			lt, err := trie.New(h, tdb)
			if err != nil {
				c.Violation("gc/referenced-root-unreadable", fmt.Sprintf("root %x is still referenced %d time(s) from the meta root (flushed=%v) but cannot be opened: %v", h[:6], refs[h], flushed[h], err), w)
				return
			}
			ks := make([]string, 0, len(snaps[h]))
			for k := range snaps[h] {
				ks = append(ks, k)
			}
			sort.Strings(ks)
			for _, k := range ks {
				got, err := lt.TryGet([]byte(k))
				c.Count("gc_reads_of_referenced_roots", 1)
				if err != nil || !bytes.Equal(got, snaps[h][k]) {
					c.Violation("gc/referenced-root-loses-content", fmt.Sprintf("root %x is still referenced %d time(s) (flushed=%v); key %x reads %x, err %v, committed value %x", h[:6], refs[h], flushed[h], k, got, err, snaps[h][k]), w)
					return
				}
			}
		}
		// the live trie goes on from the committed root (as the next block does)
		if r.Chance(0.5) {
			if t, err = trie.New(root, tdb); err != nil {
				c.Violation("gc/head-root-unreadable", fmt.Sprintf("head root %x: %v", root[:6], err), hist)
				return
			}
		}
	}
	c.Count("gc_histories", 1)
}
