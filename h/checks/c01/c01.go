// Package c01: consensus agreement and voting discipline (DESIGN.md §5 C01).
package c01

import (
	"fmt"

	"verif/h/internal/core"
	"verif/h/internal/detsim"
	"verif/h/internal/rng"
)

func init() {
	core.Register(&core.Check{
		ID:        "C01",
		Also:      []string{"C01T"}, // threaded lane under the race detector (h/checks/c01t)
		Level:     "exploration",
		Technique: "deterministic simulation of N real ConsensusState objects under a seeded adversarial scheduler with Byzantine validators (<1/3 power, real keys); online trace oracle over emission/delivery/commit logs",
		Rule: "case = one schedule: validator powers, Byzantine subset (<1/3 power), loss/eagerness/duplication rates and every scheduler decision drawn from the case seed; " +
			"oracles: agreement of CommitBlock calls per height, independent >2/3 tally of every seen-commit, one prevote/precommit per (H,R), precommit only after >2/3 delivered prevotes for that block in that round, " +
			"no prevote against the node's last non-nil precommit without a later delivered >2/3 prevote set for another value. " +
			"non-trivial = the schedule reached a round > 0 AND delivered at least one Byzantine message; distinct by hash of the decision log",
		Assumptions: []string{
			"the light application accepts any block extending its head (block validity is C02's subject)",
			"the chain-specific wall-clock 'recover' mode (timeoutRecover, 15 min without a block) is never triggered by the simulator",
			"validator keys are real FilePV files in the scratch directory, so the signing discipline of the whole validator (state machine + key file) is what is observed",
		},
		Cases: func(tier string) int {
			if tier == "thorough" {
				return 40000
			}
			return 640
		},
		Run:  run,
		Init: core.QuietLogs,
		Floors: func(tier string) map[string]int64 {
			return map[string]int64{"commits": 500, "votes_round_gt0": 200, "byz_equivocations": 50, "locks_taken": 200, "unlocks_observed": 1, "timeouts_fired": 500, "stale_timeouts_fired": 20}
		},
	})
}

type caseConf struct {
	Powers []int64
	Byz    []bool
	Loss   float64
	Eager  float64
	Stale  float64
	Dup    float64
	ByzRt  float64
}

// genPowers draws a validator set and a Byzantine subset with strictly less than 1/3 of the power.
func genPowers(r *rng.R) ([]int64, []bool) {
	n := []int{4, 4, 4, 5, 7}[r.Intn(5)]
	powers := make([]int64, n)
	switch r.Intn(4) {
	case 0:
		for i := range powers {
			powers[i] = 10
		}
	case 1:
		for i := range powers {
			powers[i] = int64(1 + r.Intn(9))
		}
	case 2: // one whale just under 1/3
		for i := range powers {
			powers[i] = 10
		}
		var rest int64 = int64(10 * (n - 1))
		powers[0] = rest/2 - 1 // whale/(whale+rest) < 1/3  <=> 2*whale < rest
		if powers[0] < 1 {
			powers[0] = 1
		}
	default:
		for i := range powers {
			powers[i] = int64(1 + i)
		}
	}
	var total int64
	for _, p := range powers {
		total += p
	}
	byz := make([]bool, n)
	var bp int64
	for _, i := range r.Perm(n) {
		if r.Chance(0.7) && 3*(bp+powers[i]) < total {
			byz[i] = true
			bp += powers[i]
		}
	}
	return powers, byz
}

func run(c *core.Ctx) {
	r := c.Rng
	powers, byz := genPowers(r)
	cc := caseConf{Powers: powers, Byz: byz,
		Loss:  []float64{0, 0.02, 0.1, 0.25}[r.Intn(4)],
		Eager: []float64{0.01, 0.05, 0.2}[r.Intn(3)],
		Stale: []float64{0, 0.1, 0.3}[r.Intn(3)],
		Dup:   []float64{0, 0.05, 0.3}[r.Intn(3)],
		ByzRt: []float64{0.02, 0.08, 0.2}[r.Intn(3)],
	}
	sim, err := detsim.New(r.Split(), detsim.Config{
		Powers: cc.Powers, Byz: cc.Byz, Heights: 3, MaxSteps: 1500, Loss: cc.Loss, Eager: cc.Eager, StaleTO: cc.Stale, DupProb: cc.Dup, ByzRate: cc.ByzRt,
		Scratch: c.Scratch, KeepTrace: c.Verbose || c.Index%160 == 0,
	})
	if err != nil {
		c.Inconclusive("simulator setup failed: " + err.Error())
		return
	}
	sim.Mon.HeldCheck = true // held block = block the held parts encode (shared with C12S)
	sim.Mon.LockRecordCheck = true
	sim.Run()
	m := sim.Mon
	for k, v := range m.Counters {
		c.Count(k, v)
	}
	c.Count("steps", int64(sim.Steps))
	c.Count("timeouts_fired", int64(sim.TimeoutsFired))
	c.Count("stale_timeouts_fired", int64(sim.StaleFired))
	c.Count("deliveries", int64(sim.Delivered))
	c.Count("duplicate_deliveries", int64(sim.Dups))
	c.Count("byz_actions", int64(sim.ByzActions))
	if m.Counters["commits"] == 0 {
		c.Count("schedules_without_commit", 1)
	}
	for _, v := range m.Violations {
		tr := sim.Trace
		if len(tr) > 300 {
			tr = tr[len(tr)-300:]
		}
		c.Violation(v.Key, v.Detail, map[string]interface{}{"config": cc, "steps": sim.Steps, "trace_tail": tr})
	}
	nbyz := 0
	for _, b := range byz {
		if b {
			nbyz++
		}
	}
	if m.Counters["votes_round_gt0"] > 0 && sim.ByzActions > 0 && nbyz > 0 {
		c.Nontrivial(fmt.Sprintf("%d-%d-%d-%d-%d", sim.Steps, sim.Delivered, sim.TimeoutsFired, m.Counters["votes_checked"], m.Counters["commits"]))
	}
	if c.Index%160 == 0 {
		tr := sim.Trace
		if len(tr) > 25 {
			tr = tr[:25]
		}
		c.Sample(map[string]interface{}{"config": cc, "steps": sim.Steps, "commits": m.Counters["commits"], "decisions_prefix": tr})
	}
	for _, n := range sim.Nodes {
		n.CS.Stop()
	}
}
