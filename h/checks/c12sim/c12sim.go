// Package c12sim is the consensus-side lane of C12 (id "C12S"): the block a node HOLDS for a part set is the
// block those parts encode. One equivocating proposer announces two blocks for the same round; a victim
// validator receives the two proposals, both sets of parts, forged parts, the prevotes of the others and its
// own timeouts in adversarial orders (among them: polka for B1 first, B1's parts, and only then the signed
// proposal for B2 with B2's parts). After every delivery the held-block monitor of the simulator re-decodes
// every complete part set in the victim's (and everybody's) RoundState and compares identities and bytes.
package c12sim

import (
	"bytes"
	"fmt"
	"hash/fnv"

	cs "github.com/lianxiangcloud/linkchain/consensus"
	cstypes "github.com/lianxiangcloud/linkchain/consensus/types"
	"github.com/lianxiangcloud/linkchain/libs/crypto/merkle"
	"github.com/lianxiangcloud/linkchain/libs/ser"
	"github.com/lianxiangcloud/linkchain/types"

	"verif/h/internal/core"
	"verif/h/internal/detsim"
)

func init() {
	core.Register(&core.Check{
		ID:        "C12S",
		Level:     "exploration",
		Technique: "deterministic consensus simulation: real ConsensusState objects fed two conflicting proposals, their parts, forged parts, votes and timeouts in generated orders; online held-block monitor (re-decode of every complete part set in RoundState, identity and byte comparison with the proposer's encoding) plus the C01 trace oracle",
		Rule: "case = 4-7 equal-power validators, one equivocating proposer, one victim; the victim's delivery order is a template (polka-first / proposal-first / partial) with random sub-orders or a uniformly random permutation, duplicates and forged parts interleaved; the height is then finished fault-free. " +
			"non-trivial = the victim completed at least one part set while already holding a block or a different proposal; distinct by the delivery order",
		Assumptions: []string{"same simulator and assumptions as C01", "truth for a part-set header is the encoding the (honest or Byzantine) proposer produced with the repository's own MakePartSet"},
		Cases: func(tier string) int {
			if tier == "thorough" {
				return 12000
			}
			return 400
		},
		Run:  run,
		Init: core.QuietLogs,
		Floors: func(tier string) map[string]int64 {
			f := map[string]int64{"held_pairs_checked": 40000, "held_pairs_compared_with_proposer_bytes": 40000, "scenario_reached": 300,
				"victim_completed_B1_without_proposal": 60, "victim_accepted_other_proposal_after_completing_B1": 40, "victim_completed_B2_after_B1": 40,
				"victim_completed_B1_after_B2": 40, "forged_parts_delivered": 1500, "heights_finished_after_script": 250,
				"victim_proposals_over_block_plus_trailing_bytes": 40, "victim_proposals_same_header_twin_of_the_polka_block": 35, "locks_compared_with_own_precommit": 8000}
			if tier == "thorough" {
				for k := range f {
					f[k] *= 25
				}
			}
			return f
		},
	})
}

type item struct {
	Kind string // p1 p2 b1 b2 forged vote to
	pm   *detsim.PoolMsg
	msg  cs.ConsensusMessage
}

func run(c *core.Ctx) {
	r := c.Rng
	n := 4 + r.Intn(4)
	powers := make([]int64, n)
	byz := make([]bool, n)
	pw := int64(1 + r.Intn(10))
	for i := range powers {
		powers[i] = pw
	}
	bz := r.Intn(n)
	byz[bz] = true
	sim, err := detsim.New(r.Split(), detsim.Config{Powers: powers, Byz: byz, Heights: 1000, MaxSteps: 4000, PartSize: []int{48, 64, 100, 151, 256, 4096}[r.Intn(6)],
		Scratch: c.Scratch, KeepTrace: c.Verbose})
	if err != nil {
		c.Inconclusive("simulator setup failed: " + err.Error())
		return
	}
	defer func() {
		for _, nd := range sim.Nodes {
			nd.CS.Stop()
		}
	}()
	sim.Mon.HeldCheck = true
	bzAddr := string(sim.Vals[bz].Priv.PubKey().Address())

	// A: fault-free until every correct node is at the start of a height whose round-0 proposer is the Byzantine validator
	var H uint64
	atStart := func() bool {
		H = 0
		for _, nd := range sim.Nodes {
			rs := nd.CS.GetRoundState()
			if rs.Round != 0 || rs.Step > cstypes.RoundStepNewRound || rs.Proposal != nil || (H != 0 && rs.Height != H) {
				return false
			}
			if string(rs.Validators.GetProposer().Address) != bzAddr {
				return false
			}
			H = rs.Height
		}
		return true
	}
	sim.RunFair(3000, atStart)
	if !atStart() {
		c.Count("scenario_not_reached", 1)
		report(c, sim, nil)
		return
	}
	// B: everybody enters round 0 (not proposer: waits for a proposal)
	for _, nd := range sim.Nodes {
		for k := 0; k < 3 && nd.CS.GetRoundState().Step < cstypes.RoundStepPropose; k++ {
			sim.FireTimeout(nd, false)
		}
		if rs := nd.CS.GetRoundState(); rs.Step != cstypes.RoundStepPropose || rs.Round != 0 || rs.Height != H {
			c.Count("scenario_not_reached", 1)
			report(c, sim, nil)
			return
		}
	}
	c.Count("scenario_reached", 1)
	victim := sim.Nodes[r.Intn(len(sim.Nodes))]
	var others []*detsim.Node
	onlyOthers := map[int]bool{}
	for _, nd := range sim.Nodes {
		if nd != victim {
			others = append(others, nd)
			onlyOthers[nd.ID] = true
		}
	}
	// C: two conflicting proposals of the Byzantine proposer
	P1 := sim.MakeByzProposal(bz, others[0], H, 0, 1, -1, types.BlockID{})
	P2 := sim.MakeByzProposal(bz, others[0], H, 0, 2, -1, types.BlockID{})
	if P1 == nil || P2 == nil || P1.BlockID.Equals(P2.BlockID) {
		c.Inconclusive("could not build two distinct proposals")
		return
	}
	// a quarter of the cases: the victim's proposal is signed over B2's encoding FOLLOWED BY further bytes. A part
	// set "reassembles byte for byte into the proposer's block or not at all": bytes that are not a block's
	// encoding must not leave the victim holding a block next to them.
	switch x := r.Intn(8); {
	case x < 2:
		padded := append(append([]byte{}, P2.Bytes...), r.Bytes(1+r.Intn(120))...)
		P2 = sim.MakeByzProposalOverBytes(bz, H, 0, padded, P2.Block)
		c.Count("victim_proposals_over_block_plus_trailing_bytes", 1)
	case x < 4:
		// the victim's proposal is a TWIN of B1: same header (hence the same block hash) and a body that differs in
		// a byte no header field commits to (the BlockID recorded inside the last commit), hence another part set.
		// The polka the victim sees is for B1's part set; what it locks must be what it precommits.
		var tb *types.Block
		if ser.DecodeBytes(P1.Bytes, &tb) == nil && tb != nil && tb.LastCommit != nil {
			tb.LastCommit.BlockID.PartsHeader.Total += 1 + r.Intn(3)
			if tbz, err := ser.EncodeToBytes(tb); err == nil && !bytes.Equal(tbz, P1.Bytes) && tb.Hash() == P1.Block.Hash() {
				P2 = sim.MakeByzProposalOverBytes(bz, H, 0, tbz, tb)
				c.Count("victim_proposals_same_header_twin_of_the_polka_block", 1)
			}
		}
	}
	// the others see only P1/B1 and prevote it
	nobody := map[int]bool{-1: true}
	pm1 := sim.Post(bz, P1.Msg, nobody)
	for _, nd := range others {
		sim.Deliver(pm1, nd)
	}
	var b1 []*detsim.PoolMsg
	for i := 0; i < P1.Parts.Total(); i++ {
		pm := sim.Post(bz, &cs.BlockPartMessage{Height: H, Round: 0, Part: P1.Parts.GetPart(i)}, nobody)
		b1 = append(b1, pm)
		for _, nd := range others {
			sim.Deliver(pm, nd)
		}
	}
	// the Byzantine validator supports B1 with both votes (so that B1 can be committed without the victim)
	sim.Post(bz, &cs.VoteMessage{Vote: sim.SignVote(bz, types.VoteTypePrevote, H, 0, P1.BlockID)}, nil)
	// everything among the others is delivered (they reach the polka and precommit B1); the victim gets nothing yet
	sim.DropFilter = func(pm *detsim.PoolMsg, nd *detsim.Node) bool { return nd == victim }
	sim.RunFair(400, func() bool {
		for _, nd := range others {
			if rs := nd.CS.GetRoundState(); rs.Height == H && rs.Step < cstypes.RoundStepPrecommit {
				return false
			}
		}
		return true
	})
	sim.DropFilter = nil

	// D: the victim's schedule
	var items []item
	items = append(items, item{Kind: "p2", msg: P2.Msg})
	for _, pm := range b1 {
		items = append(items, item{Kind: "b1", pm: pm})
	}
	for i := 0; i < P2.Parts.Total(); i++ {
		items = append(items, item{Kind: "b2", msg: &cs.BlockPartMessage{Height: H, Round: 0, Part: P2.Parts.GetPart(i)}})
	}
	var votes []item
	for _, pm := range sim.Pool {
		if pm.Height == H && pm.Round == 0 && pm.Kind == "prevote" {
			votes = append(votes, item{Kind: "vote", pm: pm})
		}
	}
	forged := func() item {
		src := P1
		if r.Bool() {
			src = P2
		}
		p := src.Parts.GetPart(r.Intn(src.Parts.Total()))
		q := &types.Part{Index: p.Index, Bytes: append([]byte{}, p.Bytes...), Proof: merkle.SimpleProof{Aunts: append([][]byte{}, p.Proof.Aunts...)}}
		switch r.Intn(4) {
		case 0:
			if len(q.Bytes) > 0 {
				q.Bytes[r.Intn(len(q.Bytes))] ^= 1 << uint(r.Intn(8))
			}
		case 1:
			q.Index = (q.Index + 1) % src.Parts.Total()
			if src.Parts.Total() == 1 {
				q.Bytes = append(q.Bytes, 0)
			}
		case 2: // part of the other block
			o := P2
			if src == P2 {
				o = P1
			}
			op := o.Parts.GetPart(r.Intn(o.Parts.Total()))
			q.Bytes = append([]byte{}, op.Bytes...)
		default:
			if len(q.Proof.Aunts) > 0 {
				q.Proof.Aunts = q.Proof.Aunts[1:]
			} else {
				q.Proof.Aunts = [][]byte{r.Bytes(32)}
			}
		}
		return item{Kind: "forged", msg: &cs.BlockPartMessage{Height: H, Round: 0, Part: q}}
	}
	to := item{Kind: "to"}
	shuffle := func(xs []item) []item {
		out := make([]item, len(xs))
		for i, j := range r.Perm(len(xs)) {
			out[i] = xs[j]
		}
		return out
	}
	pick := func(kind string) []item {
		var out []item
		for _, it := range items {
			if it.Kind == kind {
				out = append(out, it)
			}
		}
		return shuffle(out)
	}
	var order []item
	tmpl := []string{"polka-first", "polka-first", "proposal-first", "partial", "random"}[r.Intn(5)]
	switch tmpl {
	case "polka-first": // votes, propose timeout, prevote-wait timeout, B1 parts, then the proposal for B2 and its parts
		order = append(order, shuffle(votes)...)
		order = append(order, to, to)
		bb := pick("b1")
		k := len(bb)
		if r.Chance(0.3) {
			k = r.Intn(len(bb) + 1)
		}
		order = append(order, bb[:k]...)
		order = append(order, pick("p2")...)
		rest := append(append([]item{}, bb[k:]...), pick("b2")...)
		if r.Bool() {
			rest = shuffle(rest)
		}
		order = append(order, rest...)
	case "proposal-first": // proposal and block B2 complete, then the polka for B1 and B1's parts
		order = append(order, pick("p2")...)
		order = append(order, pick("b2")...)
		order = append(order, shuffle(votes)...)
		order = append(order, to, to)
		order = append(order, pick("b1")...)
	case "partial": // proposal for B2, some of its parts, polka for B1, then all parts mixed
		order = append(order, pick("p2")...)
		b2 := pick("b2")
		k := r.Intn(len(b2) + 1)
		order = append(order, b2[:k]...)
		order = append(order, shuffle(votes)...)
		order = append(order, to, to)
		order = append(order, shuffle(append(append([]item{}, b2[k:]...), pick("b1")...))...)
	default:
		all := append(append([]item{}, items...), votes...)
		all = append(all, to, to, to)
		order = shuffle(all)
	}
	// duplicates and forgeries at random positions
	var final []item
	for _, it := range order {
		if r.Chance(0.35) {
			final = append(final, forged())
		}
		final = append(final, it)
		if it.Kind != "to" && r.Chance(0.1) {
			final = append(final, it)
		}
	}
	var trace []string
	completedB1NoProp, acceptedAfter, holdingBefore := false, false, false
	for _, it := range final {
		before := victim.CS.GetRoundState()
		hadBlock, hadProp := before.ProposalBlock != nil, before.Proposal != nil
		var hadHdr types.PartSetHeader
		if before.ProposalBlockParts != nil {
			hadHdr = before.ProposalBlockParts.Header()
		}
		switch {
		case it.Kind == "to":
			sim.FireTimeout(victim, false)
		case it.pm != nil:
			sim.Deliver(it.pm, victim)
		default:
			if it.Kind == "forged" {
				c.Count("forged_parts_delivered", 1)
			}
			sim.Deliver(sim.Post(bz, it.msg, nobody), victim)
		}
		trace = append(trace, it.Kind)
		if victim.Dead {
			break
		}
		after := victim.CS.GetRoundState()
		if after.Height != H {
			break
		}
		if !hadBlock && after.ProposalBlock != nil {
			isB1 := after.ProposalBlockParts != nil && after.ProposalBlockParts.HasHeader(P1.Parts.Header())
			if isB1 && !hadProp {
				c.Count("victim_completed_B1_without_proposal", 1)
				completedB1NoProp = true
			}
			if isB1 && hadProp {
				c.Count("victim_completed_B1_after_B2", 1)
				holdingBefore = true
			}
			if !isB1 && acceptedAfter {
				c.Count("victim_completed_B2_after_B1", 1)
				holdingBefore = true
			}
		}
		if hadBlock && after.ProposalBlock != nil && after.ProposalBlockParts != nil && !after.ProposalBlockParts.HasHeader(hadHdr) {
			// a second part set was completed while a block was held (only possible if the held block is not reset)
			c.Count("victim_completed_second_set_while_holding_block", 1)
			holdingBefore = true
		}
		if !hadProp && after.Proposal != nil && completedB1NoProp {
			c.Count("victim_accepted_other_proposal_after_completing_B1", 1)
			acceptedAfter = true
		}
		if sim.Mon.Fatal() {
			break
		}
	}
	c.Count("template/"+tmpl, 1)
	if holdingBefore || acceptedAfter {
		fp := fnv.New64a()
		fmt.Fprint(fp, n, tmpl, trace)
		c.Nontrivial(fmt.Sprintf("%016x", fp.Sum64()))
	}
	// E: the Byzantine validator also precommits B1; finish the height fault-free
	if !sim.Mon.Fatal() && !victim.Dead {
		sim.Post(bz, &cs.VoteMessage{Vote: sim.SignVote(bz, types.VoteTypePrecommit, H, 0, P1.BlockID)}, nil)
		done := func() bool {
			for _, nd := range sim.Nodes {
				if nd.App.Height() < H {
					return false
				}
			}
			return true
		}
		sim.RunFair(3000, done)
		if done() {
			c.Count("heights_finished_after_script", 1)
		} else {
			c.Count("heights_not_finished_after_script", 1)
		}
	}
	report(c, sim, map[string]interface{}{"validators": n, "byzantine": bz, "victim": victim.ID, "height": H, "template": tmpl, "victim_order": trace,
		"parts_B1": P1.Parts.Total(), "parts_B2": P2.Parts.Total()})
}

func report(c *core.Ctx, sim *detsim.Sim, wit map[string]interface{}) {
	for k, v := range sim.Mon.Counters {
		c.Count(k, v)
	}
	for _, v := range sim.Mon.Violations {
		w := map[string]interface{}{"case": wit}
		if c.Verbose {
			w["trace"] = sim.Trace
		}
		c.Violation(v.Key, v.Detail, w)
	}
	if wit != nil && c.Index%100 == 0 {
		c.Sample(wit)
	}
}
