// dev-c06: vcheck with only C06 linked in (development convenience).
package main

import (
	_ "verif/h/checks/c06"
	"verif/h/internal/core"
)

func main() { core.Main() }
