package main

import (
	"fmt"
	"math/big"
	"time"

	"github.com/lianxiangcloud/linkchain/libs/common"
	"github.com/lianxiangcloud/linkchain/types"
	"verif/h/internal/chainkit"
	"verif/h/internal/rng"
	_ "verif/shim/goshim"
)

func must(err error) {
	if err != nil {
		panic(err)
	}
}

func main() {
	g, err := chainkit.BuildGenesis(chainkit.GenesisOpts{Seed: 1, NumAccounts: 4, Powers: []int64{10, 10, 10, 10}})
	must(err)
	a, err := g.NewNode(chainkit.NodeOpts{})
	must(err)
	b, err := g.NewNode(chainkit.NodeOpts{})
	must(err)
	r := rng.New(7)
	ws := []*chainkit.UWallet{chainkit.NewUWallet(1, 0, 2), chainkit.NewUWallet(1, 1, 2)}
	led := chainkit.NewLedger(ws)
	lastCommit := chainkit.NilCommit()
	step := func() {
		blk, c, err := a.Step(g, lastCommit, b)
		must(err)
		lastCommit = c
		led.ScanBlock(blk)
		fmt.Println("height", blk.Height, "txs", blk.NumTxs, "hidden", led.HiddenValue(common.EmptyAddress), "unknown", led.Unknown)
	}
	_ = time.Now
	e18, _ := new(big.Int).SetString("100000000000000000000", 10)
	// A -> U : 3 outputs to wallet 0 (main + sub 1) and wallet 1
	for i := 0; i < 6; i++ {
		dests := []types.DestEntry{chainkit.Dest(ws[0], 0, e18), chainkit.Dest(ws[0], 1, new(big.Int).Mul(e18, big.NewInt(2))), chainkit.Dest(ws[1], 2, e18)}
		fee := chainkit.UtxoFeeAinToU(new(big.Int).Mul(e18, big.NewInt(4)))
		tx, err := chainkit.NewAinTx(g.Accounts[0], uint64(i), dests, fee)
		must(err)
		if err := a.Mempool.AddTx("", tx); err != nil {
			fmt.Println("addtx A->U err", err)
		}
	}
	step()
	// U -> U ring size 1 and ring size 5
	for _, rs := range []int{1, 5} {
		sp := led.Spendable(ws[0], common.EmptyAddress)
		in := sp[0]
		in.Pending = true
		fee := chainkit.UtxoFeeUinToU(a.App.GetUTXOGas())
		out := new(big.Int).Sub(in.Amount, fee)
		tx, err := led.NewUinTx(r, ws[0], []*chainkit.OwnedOut{in}, rs, []types.DestEntry{chainkit.Dest(ws[1], 0, out)})
		must(err)
		if err := a.Mempool.AddTx("", tx); err != nil {
			fmt.Println("addtx U->U err", err, "ring", rs)
		}
	}
	step()
	// U -> A
	sp := led.Spendable(ws[1], common.EmptyAddress)
	in := sp[0]
	fee := chainkit.UtxoFeeUinToA(in.Amount)
	out := new(big.Int).Sub(in.Amount, fee)
	tx, err := led.NewUinTx(r, ws[1], []*chainkit.OwnedOut{in}, 3, []types.DestEntry{&types.AccountDestEntry{To: g.Accounts[2].Addr, Amount: out}})
	must(err)
	if err := a.Mempool.AddTx("", tx); err != nil {
		fmt.Println("addtx U->A err", err)
	}
	before := a.App.GetBalance(g.Accounts[2].Addr)
	step()
	fmt.Println("acct2 delta", new(big.Int).Sub(a.App.GetBalance(g.Accounts[2].Addr), before), "expected", out)
}
