package main

import (
	"encoding/hex"
	"encoding/json"
	"fmt"
	"io/ioutil"
	"os"

	"github.com/lianxiangcloud/linkchain/libs/common"
	"github.com/lianxiangcloud/linkchain/libs/crypto"
	dbm "github.com/lianxiangcloud/linkchain/libs/db"
	"github.com/lianxiangcloud/linkchain/libs/trie"
)

type pl [][]byte

func (p *pl) Put(k, v []byte) error { *p = append(*p, append([]byte{}, v...)); fmt.Printf("  put key=%x keccak(val)=%x len=%d\n", k, crypto.Keccak256(v), len(v)); return nil }

func main() {
	b, _ := ioutil.ReadFile(os.Args[1])
	var d struct {
		Witness []struct{ K, Key, Val string }
	}
	json.Unmarshal(b, &d)
	disk := dbm.NewMemDB()
	tdb := trie.NewDatabase(disk)
	t, _ := trie.New(common.EmptyHash, tdb)
	for i, o := range d.Witness {
		k, _ := hex.DecodeString(o.Key)
		v, _ := hex.DecodeString(o.Val)
		switch o.K {
		case "put":
			t.TryUpdate(k, v)
		case "del":
			t.TryDelete(k)
		case "hash":
			t.Hash()
		case "commit":
			t.Commit(nil)
		case "reopen":
			root := t.Hash()
			tdb.Commit(root, false)
			t, _ = trie.New(root, tdb)
		}
		_ = i
	}
	fmt.Printf("root %x\n", t.Hash())
	k, _ := hex.DecodeString(os.Args[2])
	var p pl
	t.Prove(k, 0, &p)
}
