package main

import (
	"fmt"
	"math/big"
	"time"

	"verif/h/internal/chainkit"
	_ "verif/shim/goshim"
)

func main() {
	t0 := time.Now()
	g, err := chainkit.BuildGenesis(chainkit.GenesisOpts{Seed: 1, NumAccounts: 4, Powers: []int64{10, 10, 10, 10}})
	if err != nil {
		panic(err)
	}
	fmt.Println("genesis", time.Since(t0))
	t0 = time.Now()
	a, err := g.NewNode(chainkit.NodeOpts{})
	if err != nil {
		panic(err)
	}
	b, err := g.NewNode(chainkit.NodeOpts{})
	if err != nil {
		panic(err)
	}
	fmt.Println("nodes", time.Since(t0), "vals", a.Status.Validators.Size())
	var lastCommit = (*chainkitCommit)(nil)
	_ = lastCommit
	var lc = a.App.LoadSeenCommit(0)
	_ = lc
	var commit = (interface{})(nil)
	_ = commit
	nonce := uint64(0)
	var last = (*struct{})(nil)
	_ = last
	var c = (*commitT)(nil)
	_ = c
	var prev = (*cT)(nil)
	_ = prev
	var lastC = (interface{})(nil)
	_ = lastC
	run(g, a, b, &nonce)
}

type chainkitCommit struct{}
type commitT struct{}
type cT struct{}

func run(g *chainkit.Genesis, a, b *chainkit.Node, nonce *uint64) {
	var lc = (*typesCommit)(nil)
	_ = lc
	t0 := time.Now()
	var commit = (interface{})(nil)
	_ = commit
	lastCommit := chainkit.NilCommit()
	for h := 1; h <= 5; h++ {
		for i := 0; i < 3; i++ {
			tx, err := chainkit.NewTransfer(g.Accounts[0], *nonce, g.Accounts[1].Addr, big.NewInt(1e18))
			if err != nil {
				panic(err)
			}
			*nonce++
			if err := a.Mempool.AddTx("", tx); err != nil {
				fmt.Println("addtx err", err)
			}
		}
		blk, c, err := a.Step(g, lastCommit, b)
		if err != nil {
			panic(err)
		}
		lastCommit = c
		fmt.Println("height", blk.Height, "txs", blk.NumTxs, "state", blk.StateHash.String()[:10], "balB", b.App.GetBalance(g.Accounts[1].Addr), "found", a.App.GetBalance(chainkit.FoundationAddr()))
	}
	fmt.Println("5 blocks", time.Since(t0))
}

type typesCommit struct{}
