package main

import (
	_ "verif/h/checks/c01t"
	"verif/h/internal/core"
)

func main() { core.Main() }
