// dev-c18: vcheck with only C18 linked in (development convenience).
package main

import (
	_ "verif/h/checks/c18"
	"verif/h/internal/core"
)

func main() { core.Main() }
