// dev-c13: vcheck with only C13 linked in (development convenience).
package main

import (
	_ "verif/h/checks/c13"
	"verif/h/internal/core"
)

func main() { core.Main() }
