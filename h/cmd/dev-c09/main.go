// dev-c09: vcheck with only C09 linked in (development convenience).
package main

import (
	_ "verif/h/checks/c09"
	"verif/h/internal/core"
)

func main() { core.Main() }
