// vcheck — dispatcher of the runtime-monitoring checks (DESIGN.md §3).
//
//	vcheck <id> [quick|thorough] [--seed N]            run a check (parent mode)
//	vcheck <id> --replay <file>                        re-execute one recorded case
//	vcheck --child <id> <tier> <seed> <from> <to> <out> (internal)
//	vcheck --list | --needs-race <id>
package main

import (
	_ "verif/h/checks"
	"verif/h/internal/core"
)

func main() { core.Main() }
