// vcheck — dispatcher of the runtime-monitoring checks (DESIGN.md §3).
//
//	vcheck <id> [--tier quick|thorough] [--seed N]     run a check (parent mode)
//	vcheck <id> --replay <file>                        re-execute one recorded case
//	vcheck --child <id> <tier> <seed> <from> <to> <out> (internal)
//	vcheck --list | --needs-race <id>
package main

import (
	"fmt"
	"os"
	"strconv"

	_ "verif/h/checks"
	"verif/h/internal/core"
)

func main() {
	args := os.Args[1:]
	if len(args) == 0 {
		fmt.Println("usage: vcheck <id> [--tier quick|thorough] [--seed N] [--replay file]")
		os.Exit(2)
	}
	switch args[0] {
	case "--list":
		for _, id := range core.IDs() {
			fmt.Println(id)
		}
		return
	case "--needs-race":
		if c := core.Get(args[1]); c != nil && c.Race {
			fmt.Println("yes")
		} else {
			fmt.Println("no")
		}
		return
	case "--needs-asan":
		if c := core.Get(args[1]); c != nil && c.Asan {
			fmt.Println("yes")
		} else {
			fmt.Println("no")
		}
		return
	case "--child":
		seed, _ := strconv.ParseUint(args[3], 10, 64)
		from, _ := strconv.Atoi(args[4])
		to, _ := strconv.Atoi(args[5])
		os.Exit(core.ChildMain(args[1], args[2], seed, from, to, args[6]))
	}
	id := args[0]
	tier := os.Getenv("VERIF_TIER")
	if tier == "" {
		tier = "quick"
	}
	seed := uint64(1)
	if s := os.Getenv("VERIF_SEED"); s != "" {
		if v, err := strconv.ParseUint(s, 10, 64); err == nil {
			seed = v
		}
	}
	replay := ""
	for i := 1; i < len(args); i++ {
		switch args[i] {
		case "--tier":
			i++
			tier = args[i]
		case "--seed":
			i++
			seed, _ = strconv.ParseUint(args[i], 10, 64)
		case "--replay":
			i++
			replay = args[i]
		case "quick", "thorough":
			tier = args[i]
		}
	}
	if replay != "" {
		os.Exit(core.ReplayMain(id, replay))
	}
	os.Exit(core.ParentMain(id, tier, seed))
}
