// dev-c04: vcheck with only C04 linked in (development convenience).
package main

import (
	_ "verif/h/checks/c04"
	"verif/h/internal/core"
)

func main() { core.Main() }
