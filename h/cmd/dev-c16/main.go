package main

import (
	_ "verif/h/checks/c16"
	"verif/h/internal/core"
)

func main() { core.Main() }
