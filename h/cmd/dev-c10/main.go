// dev-c10: vcheck with only C10 linked in (development convenience).
package main

import (
	_ "verif/h/checks/c10"
	"verif/h/internal/core"
)

func main() { core.Main() }
