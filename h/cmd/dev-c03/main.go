// dev-c03: vcheck with only C03 linked in (development convenience).
package main

import (
	_ "verif/h/checks/c03"
	"verif/h/internal/core"
)

func main() { core.Main() }
