package main

import (
	_ "verif/h/checks/c02"
	"verif/h/internal/core"
)

func main() { core.Main() }
