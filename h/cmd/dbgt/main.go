package main

import (
	"fmt"
	"os"
	"time"

	"github.com/lianxiangcloud/linkchain/libs/log"
	"verif/h/internal/detsim"
	"verif/h/internal/rng"
)

func main() {
	log.Root().SetHandler(log.LvlFilterHandler(log.LvlInfo, log.StreamHandler(os.Stderr, log.TerminalFormat(false))))
	os.MkdirAll("/verif/build/scratch/dbgt", 0755)
	net, err := detsim.NewMemNet(rng.New(3), []int64{3, 4, 5, 6}, "/verif/build/scratch/dbgt")
	if err != nil {
		panic(err)
	}
	for i := 0; i < 50; i++ {
		time.Sleep(200 * time.Millisecond)
		fmt.Println("min height", net.MinHeight(), "delivered", net.Delivered, "recvpanics", net.ReceivePanics)
		for _, n := range net.Nodes {
			rs := n.CS.GetRoundState()
			fmt.Printf("  n%d %d/%d/%v\n", n.ID, rs.Height, rs.Round, rs.Step)
		}
		if net.MinHeight() >= 3 {
			break
		}
	}
	net.Stop()
}
