package main

import (
	_ "verif/h/checks/c01"
	"verif/h/internal/core"
)

func main() { core.Main() }
