package main

import (
	"fmt"

	"github.com/lianxiangcloud/linkchain/libs/cryptonote/ringct"
	lt "github.com/lianxiangcloud/linkchain/libs/cryptonote/types"
	"github.com/lianxiangcloud/linkchain/libs/cryptonote/xcrypto"
	_ "verif/shim/goshim"
)

func main() {
	sk, pk := xcrypto.SkpkGen()
	fmt.Printf("sk=%x pk=%x\n", sk, pk)
	am := ringct.FromLkamountsToKeyv([]lt.Lk_amount{5, 7})
	bp, cs, masks, err := ringct.ProveRangeBulletproof(am, lt.KeyV{sk, sk})
	fmt.Println("prove", err, len(cs), len(masks), len(bp.L))
	bp.V = cs
	ok, err := ringct.VerBulletproof(bp)
	fmt.Println("verify", ok, err)
}
