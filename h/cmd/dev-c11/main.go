// dev-c11: vcheck with only C11 linked in (development convenience).
package main

import (
	_ "verif/h/checks/c11"
	"verif/h/internal/core"
)

func main() { core.Main() }
