// dev-c11: vcheck with only C11 linked in (development convenience).
package main

import (
	"os"

	"verif/h/checks/c11"
	"verif/h/internal/core"
)

func main() {
	if len(os.Args) > 1 && os.Args[1] == "--types" {
		c11.DumpTypes()
		return
	}
	if len(os.Args) > 1 && os.Args[1] == "--probe" {
		c11.Probe()
		return
	}
	core.Main()
}
