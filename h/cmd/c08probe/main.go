package main

import (
	"fmt"
	"math/big"

	"github.com/lianxiangcloud/linkchain/libs/common"
	"github.com/lianxiangcloud/linkchain/libs/ser"
	"github.com/lianxiangcloud/linkchain/types"
	"verif/h/internal/chainkit"
	"verif/h/internal/rng"
	_ "verif/shim/goshim"
)

func must(err error) {
	if err != nil {
		panic(err)
	}
}

func dump(b []byte, indent string, depth int) {
	for len(b) > 0 {
		k, content, rest, err := ser.Split(b)
		if err != nil {
			fmt.Println(indent, "ERR", err)
			return
		}
		if k == ser.List {
			fmt.Printf("%sL(%d)\n", indent, len(content))
			if depth < 6 {
				dump(content, indent+"  ", depth+1)
			}
		} else {
			c := content
			if len(c) > 12 {
				c = c[:12]
			}
			fmt.Printf("%sS(%d) %x\n", indent, len(content), c)
		}
		b = rest
	}
}

func main() {
	g, err := chainkit.BuildGenesis(chainkit.GenesisOpts{Seed: 1, NumAccounts: 4, Powers: []int64{10, 10, 10, 10}, Tokens: []common.Address{common.HexToAddress("0x1111")}})
	must(err)
	a, err := g.NewNode(chainkit.NodeOpts{})
	must(err)
	b, err := g.NewNode(chainkit.NodeOpts{})
	must(err)
	r := rng.New(7)
	ws := []*chainkit.UWallet{chainkit.NewUWallet(1, 0, 3), chainkit.NewUWallet(1, 1, 3)}
	led := chainkit.NewLedger(ws)
	lastCommit := chainkit.NilCommit()
	step := func() {
		blk, c, err := a.Step(g, lastCommit, b)
		must(err)
		lastCommit = c
		led.ScanBlock(blk)
		fmt.Println("height", blk.Height, "txs", blk.NumTxs, "unknown", led.Unknown)
	}
	e18, _ := new(big.Int).SetString("100000000000000000000", 10)

	// plain tx
	tx, _ := chainkit.NewTransfer(g.Accounts[0], 0, g.Accounts[1].Addr, big.NewInt(12345))
	bz, _ := ser.EncodeToBytes(tx)
	fmt.Println("plain tx", len(bz))
	dump(bz, " ", 0)
	fmt.Println("checkbasic", a.App.CheckTx(tx, true))
	from, _ := tx.From()
	fmt.Println("from", from == g.Accounts[0].Addr)
	// stale cache via WithSignature
	tx2, _ := chainkit.NewTransfer(g.Accounts[1], 0, g.Accounts[1].Addr, big.NewInt(12345))
	v, rr, s := tx2.RawSignatureValues()
	sig := make([]byte, 65)
	copy(sig[32-len(rr.Bytes()):32], rr.Bytes())
	copy(sig[64-len(s.Bytes()):64], s.Bytes())
	sig[64] = byte(new(big.Int).Sub(v, big.NewInt(35+2*types.SignParam.Int64())).Uint64())
	tx3, err := tx.WithSignature(types.GlobalSTDSigner, sig)
	must(err)
	f3, err := tx3.From()
	fmt.Println("after WithSignature on warm tx: from==acct0?", f3 == g.Accounts[0].Addr, "==acct1?", f3 == g.Accounts[1].Addr, err)
	bz3, _ := ser.EncodeToBytes(tx3)
	var tx4 types.Transaction
	must(ser.DecodeBytes(bz3, &tx4))
	f4, err := tx4.From()
	fmt.Println("re-decoded: from==acct0?", f4 == g.Accounts[0].Addr, "==acct1?", f4 == g.Accounts[1].Addr, err)

	// homestead-signed
	txh := types.NewTransaction(0, g.Accounts[1].Addr, big.NewInt(12345), chainkit.TransferGas(big.NewInt(12345)), nil, nil)
	must(txh.Sign(types.STDHomesteadSigner{}, g.Accounts[0].Key))
	fh, err := txh.From()
	fmt.Println("homestead signed: from==acct0", fh == g.Accounts[0].Addr, err, "checkbasic", a.App.CheckTx(txh, true))
	// other chain param
	txo := types.NewTransaction(0, g.Accounts[1].Addr, big.NewInt(12345), chainkit.TransferGas(big.NewInt(12345)), nil, nil)
	must(txo.Sign(types.MakeSTDSigner(big.NewInt(29154)), g.Accounts[0].Key))
	fo, err := txo.From()
	fmt.Println("other-chain signed: from==acct0", fo == g.Accounts[0].Addr, err, "checkbasic", a.App.CheckTx(txo, true))

	// token tx
	tt, _ := chainkit.NewTokenTransfer(g.Accounts[0], common.HexToAddress("0x1111"), 0, g.Accounts[1].Addr, big.NewInt(5))
	bz, _ = ser.EncodeToBytes(tt)
	fmt.Println("token tx")
	dump(bz, " ", 0)
	fmt.Println("checkbasic", a.App.CheckTx(tt, true))

	// A->U
	for i := 0; i < 4; i++ {
		dests := []types.DestEntry{chainkit.Dest(ws[0], 0, e18), chainkit.Dest(ws[0], 1, new(big.Int).Mul(e18, big.NewInt(2))), chainkit.Dest(ws[1], 2, e18)}
		fee := chainkit.UtxoFeeAinToU(new(big.Int).Mul(e18, big.NewInt(4)))
		tx, err := chainkit.NewAinTx(g.Accounts[0], uint64(i), dests, fee)
		must(err)
		if i == 0 {
			bz, _ = ser.EncodeToBytes(tx)
			fmt.Println("A->U tx", len(bz))
			dump(bz, " ", 0)
			// mutate ecdh
			var m types.UTXOTransaction
			must(ser.DecodeBytes(bz, &m))
			m.RCTSig.EcdhInfo[0].Amount[0] ^= 1
			fmt.Println("A->U ecdh mutant checkbasic:", a.App.CheckTx(&m, true))
			var m2 types.UTXOTransaction
			must(ser.DecodeBytes(bz, &m2))
			m2.RCTSig.EcdhInfo = nil
			fmt.Println("A->U ecdh dropped checkbasic:", a.App.CheckTx(&m2, true))
			var m3 types.UTXOTransaction
			must(ser.DecodeBytes(bz, &m3))
			m3.RCTSig.OutPk[0].Mask[0] ^= 1
			fmt.Println("A->U outpk mutant checkbasic:", a.App.CheckTx(&m3, true))
		}
		if err := a.Mempool.AddTx("", tx); err != nil {
			fmt.Println("addtx A->U err", err)
		}
	}
	step()
	// U->U ring 1, two inputs
	sp := led.Spendable(ws[0], common.EmptyAddress)
	fmt.Println("spendable", len(sp))
	for _, rs := range []int{1, 4} {
		ins := []*chainkit.OwnedOut{sp[0], sp[1]}
		sp = sp[2:]
		fee := chainkit.UtxoFeeUinToU(a.App.GetUTXOGas())
		out := new(big.Int).Sub(new(big.Int).Add(ins[0].Amount, ins[1].Amount), fee)
		tx, err := led.NewUinTx(r, ws[0], ins, rs, []types.DestEntry{chainkit.Dest(ws[1], 0, out)})
		must(err)
		bz, _ = ser.EncodeToBytes(tx)
		if rs == 1 {
			fmt.Println("U->U tx ring", rs, len(bz))
			dump(bz, " ", 0)
		}
		var o types.UTXOTransaction
		must(ser.DecodeBytes(bz, &o))
		fmt.Println("orig checkbasic ring", rs, a.App.CheckTx(&o, true))
		// rebalance pseudo outs
		var m types.UTXOTransaction
		must(ser.DecodeBytes(bz, &m))
		fmt.Println("pseudoouts", len(m.RCTSig.P.PseudoOuts), "base pseudo", len(m.RCTSig.PseudoOuts))
	}
}
