package main

import (
	"fmt"
	"math/big"

	cfg "github.com/lianxiangcloud/linkchain/config"
	"github.com/lianxiangcloud/linkchain/libs/common"
	"github.com/lianxiangcloud/linkchain/libs/crypto"
	lt "github.com/lianxiangcloud/linkchain/libs/cryptonote/types"
	"github.com/lianxiangcloud/linkchain/libs/cryptonote/ringct"
	"github.com/lianxiangcloud/linkchain/libs/ser"
	"github.com/lianxiangcloud/linkchain/types"
	"verif/h/internal/chainkit"
	"verif/h/internal/rng"
	_ "verif/shim/goshim"
)

func must(err error) {
	if err != nil {
		panic(err)
	}
}

func dump(b []byte, indent string, depth int) {
	for len(b) > 0 {
		k, content, rest, err := ser.Split(b)
		if err != nil {
			fmt.Println(indent, "ERR", err)
			return
		}
		if k == ser.List {
			fmt.Printf("%sL(%d)\n", indent, len(content))
			if depth < 6 {
				dump(content, indent+"  ", depth+1)
			}
		} else {
			c := content
			if len(c) > 12 {
				c = c[:12]
			}
			fmt.Printf("%sS(%d) %x\n", indent, len(content), c)
		}
		b = rest
	}
}

func main() {
	g, err := chainkit.BuildGenesis(chainkit.GenesisOpts{Seed: 1, NumAccounts: 4, Powers: []int64{10, 10, 10, 10}, Tokens: []common.Address{common.HexToAddress("0x1111")}})
	must(err)
	dbs := g.CloneDBs()
	si := &types.SignersInfo{MinSignerPower: 2, Signers: []*types.SignerEntry{{Power: 1, Addr: g.Accounts[0].Addr}, {Power: 1, Addr: g.Accounts[1].Addr}, {Power: 1, Addr: g.Accounts[2].Addr}}}
	sib, err := ser.EncodeToBytes(si)
	must(err)
	dbs["txmgr"].Set([]byte(types.DBcontractCreateKey), sib)
	a, err := chainkit.OpenNode(g, dbs, chainkit.NodeOpts{})
	must(err)
	a.App.SetLastChangedVals(0, a.Status.Validators.Copy().Validators)
	b, err := g.NewNode(chainkit.NodeOpts{})
	must(err)

	// CUT
	mi := &types.ContractUpgradeMainInfo{FromAddr: g.Accounts[0].Addr, Recipient: cfg.ContractValidatorsAddr, AccountNonce: 0, Payload: []byte{0x00, 0x61, 0x73, 0x6d, 1, 0, 0, 0, 9, 9}}
	s0, err := types.SignContractUpgradeTx(g.Accounts[0].Key, mi)
	must(err)
	s1, err := types.SignContractUpgradeTx(g.Accounts[1].Key, mi)
	must(err)
	cut := types.UpgradeContractTx(mi, [][]byte{s0, s1})
	bz, err := ser.EncodeToBytes(cut)
	must(err)
	fmt.Println("CUT", len(bz))
	dump(bz, " ", 0)
	var cut2 types.ContractUpgradeTx
	must(ser.DecodeBytes(bz, &cut2))
	fmt.Println("cut checkbasic", a.App.CheckTx(&cut2, true))

	// MST
	mmi := &types.MultiSignMainInfo{AccountNonce: 0, SupportTxType: types.TxContractCreateType, SignersInfo: *si}
	sb, err := types.GenMultiSignBytes(*mmi)
	must(err)
	var vs []types.ValidatorSign
	for _, v := range g.Vals[:3] {
		sig, err := v.Priv.Sign(sb)
		must(err)
		vs = append(vs, types.ValidatorSign{Addr: v.Address(), Signature: sig.Bytes()})
	}
	mst := types.NewMultiSignAccountTx(mmi, vs)
	bz, err = ser.EncodeToBytes(mst)
	must(err)
	fmt.Println("MST", len(bz))
	dump(bz, " ", 0)
	var mst2 types.MultiSignAccountTx
	must(ser.DecodeBytes(bz, &mst2))
	fmt.Println("mst checkbasic", a.App.CheckTx(&mst2, true))
	var mst3 types.MultiSignAccountTx
	must(ser.DecodeBytes(bz, &mst3))
	mst3.Signatures = mst3.Signatures[:2]
	fmt.Println("mst 2 sigs checkbasic", a.App.CheckTx(&mst3, true))

	// homestead manual
	val := big.NewInt(12345)
	txh := types.NewTransaction(0, g.Accounts[1].Addr, val, chainkit.TransferGas(val), nil, nil)
	hb, err := ser.EncodeToBytes([]interface{}{txh.Nonce(), txh.GasPrice(), txh.Gas(), txh.To(), txh.Value(), txh.Data()})
	must(err)
	h := crypto.Keccak256(hb)
	sig, err := crypto.Sign(h, g.Accounts[0].Key)
	must(err)
	txh2, err := txh.WithSignature(types.STDHomesteadSigner{}, sig)
	must(err)
	bz, _ = ser.EncodeToBytes(txh2)
	var txh3 types.Transaction
	must(ser.DecodeBytes(bz, &txh3))
	fh, err := txh3.From()
	fmt.Println("homestead manual: from==acct0", fh == g.Accounts[0].Addr, err, "checkbasic", a.App.CheckTx(&txh3, true))
	fmt.Println("  mempool add:", a.Mempool.AddTx("", &txh3))

	_ = b
	_ = rng.New
	_ = lt.Key{}
	_ = ringct.Z
}
