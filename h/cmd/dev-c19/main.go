// dev-c19: vcheck with only C19 (and its race lane C19R) linked in (development convenience).
package main

import (
	_ "verif/h/checks/c19"
	"verif/h/internal/core"
)

func main() { core.Main() }
