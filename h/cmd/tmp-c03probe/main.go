package main

import (
	"fmt"
	"time"

	"github.com/lianxiangcloud/linkchain/libs/common"
	"github.com/lianxiangcloud/linkchain/types"
	"github.com/lianxiangcloud/linkchain/libs/log"
)

func main() {
	log.Root().SetHandler(log.DiscardHandler())
	ts := time.Unix(1600000000, 123456789)
	v := &types.Vote{Height: 7, Round: 2, Timestamp: ts, Type: types.VoteTypePrecommit,
		BlockID: types.BlockID{Hash: common.BytesToHash([]byte{1, 2, 3}), PartsHeader: types.PartSetHeader{Total: 3, Hash: []byte{0xab, 0xcd}}}}
	fmt.Println(string(v.SignBytes("chain-\"x\"\n<é>")))
	v.BlockID = types.BlockID{}
	fmt.Println(string(v.SignBytes("c")))
	v.BlockID = types.BlockID{Hash: common.BytesToHash([]byte{1})}
	fmt.Println(string(v.SignBytes("c")))
	v.BlockID = types.BlockID{PartsHeader: types.PartSetHeader{Total: 1}}
	fmt.Println(string(v.SignBytes("c")))
	v.BlockID = types.BlockID{PartsHeader: types.PartSetHeader{Hash: []byte{}}}
	fmt.Println(string(v.SignBytes("c")))
	v.BlockID = types.BlockID{PartsHeader: types.PartSetHeader{Hash: []byte{1}, Total: -4}}
	v.Round = -1
	v.Type = 200
	v.Timestamp = time.Time{}
	fmt.Println(string(v.SignBytes("")))
	fmt.Printf("%q\n", v.BlockID.Key())
}
