// dev-c15: vcheck with only C15 (and its race lane C15R) linked in (development convenience).
package main

import (
	_ "verif/h/checks/c15"
	"verif/h/internal/core"
)

func main() { core.Main() }
