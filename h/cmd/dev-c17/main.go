// dev-c17: vcheck with only C17 linked in (development convenience).
package main

import (
	_ "verif/h/checks/c17"
	"verif/h/internal/core"
)

func main() { core.Main() }
