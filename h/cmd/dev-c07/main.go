// dev-c07: vcheck with only C07 / C07R linked in (development convenience).
package main

import (
	_ "verif/h/checks/c07"
	"verif/h/internal/core"
)

func main() { core.Main() }
