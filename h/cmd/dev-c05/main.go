// dev-c05: vcheck with only C05 (and its race lane C05R) linked in (development convenience).
package main

import (
	_ "verif/h/checks/c05"
	"verif/h/internal/core"
)

func main() { core.Main() }
