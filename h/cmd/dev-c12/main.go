// dev-c12: vcheck with only C12 linked in (development convenience).
package main

import (
	_ "verif/h/checks/c12"
	_ "verif/h/checks/c12sim"
	"verif/h/internal/core"
)

func main() { core.Main() }
