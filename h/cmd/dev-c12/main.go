// dev-c12: vcheck with only C12 linked in (development convenience).
package main

import (
	_ "verif/h/checks/c12"
	"verif/h/internal/core"
)

func main() { core.Main() }
