// dev-c20: vcheck with only C20 linked in (development convenience).
package main

import (
	_ "verif/h/checks/c20"
	"verif/h/internal/core"
)

func main() { core.Main() }
