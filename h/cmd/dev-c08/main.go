// dev-c08: vcheck with only C08 linked in (development convenience).
package main

import (
	_ "verif/h/checks/c08"
	"verif/h/internal/core"
)

func main() { core.Main() }
