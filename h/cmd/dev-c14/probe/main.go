package main

import (
	"bytes"
	"fmt"
	"time"

	cs "github.com/lianxiangcloud/linkchain/consensus"
	cstypes "github.com/lianxiangcloud/linkchain/consensus/types"
	"github.com/lianxiangcloud/linkchain/libs/common"
	"github.com/lianxiangcloud/linkchain/libs/crypto"
	"github.com/lianxiangcloud/linkchain/libs/crypto/merkle"
	"github.com/lianxiangcloud/linkchain/types"
)

func main() {
	var sig crypto.SignatureEd25519
	sig[3] = 7
	vote := &types.Vote{ValidatorAddress: crypto.Address([]byte{1, 2, 3}), ValidatorIndex: 2, ValidatorSize: 4, Height: 5, Round: 1, Timestamp: time.Unix(1000, 5).UTC(), Type: 1,
		BlockID: types.BlockID{Hash: common.Hash{1}, PartsHeader: types.PartSetHeader{Total: 3, Hash: []byte{9, 9}}}, Signature: sig}
	prop := &types.Proposal{Height: 5, Round: 0, Timestamp: time.Unix(1000, 5), BlockPartsHeader: types.PartSetHeader{Total: 3, Hash: []byte{9, 9}}, POLRound: -1, Signature: sig}
	part := &types.Part{Index: 1, Bytes: []byte{1, 2, 3, 0, 0, 0}, Proof: merkle.SimpleProof{Aunts: [][]byte{{1, 2}, {3}}}}
	msgs := []cs.WALMessage{
		cs.EndHeightMessage{0},
		cs.EndHeightMessage{256},
		cs.VerifWALMsg(&cs.VoteMessage{vote}, "peer1"),
		cs.VerifWALMsg(&cs.VoteMessage{vote}, ""),
		cs.VerifWALMsg(&cs.ProposalMessage{prop}, ""),
		cs.VerifWALMsg(&cs.BlockPartMessage{Height: 5, Round: 0, Part: part}, "p"),
		cs.VerifWALTimeout(3*time.Second, 5, 0, cstypes.RoundStepPropose),
		types.EventDataRoundState{Height: 5, Round: 0, Step: "RoundStepPropose", RoundState: &struct{ X int }{3}},
		cs.VerifWALMsg(&cs.VoteMessage{&types.Vote{}}, "peer1"),
		cs.VerifWALMsg(&cs.BlockPartMessage{Height: 5, Round: 0, Part: &types.Part{}}, "p"),
	}
	for _, m := range msgs {
		var w bytes.Buffer
		func() {
			defer func() {
				if r := recover(); r != nil {
					fmt.Println("PANIC enc", cs.VerifWALDescribe(m), r)
				}
			}()
			if err := cs.NewWALEncoder(&w).Encode(&cs.TimedWALMessage{time.Now(), m}); err != nil {
				fmt.Println("enc err", err)
				return
			}
			b := append([]byte{}, w.Bytes()...)
			d, err := cs.NewWALDecoder(bytes.NewReader(b)).Decode()
			if err != nil {
				fmt.Println("dec err", cs.VerifWALDescribe(m), err)
				return
			}
			var w2 bytes.Buffer
			cs.NewWALEncoder(&w2).Encode(d)
			fmt.Printf("%-50s len=%d reenc_equal=%v time=%v\n   %x\n", cs.VerifWALDescribe(d.Msg), len(b), bytes.Equal(b, w2.Bytes()), d.Time, b)
			fmt.Printf("   %#v\n", d.Msg)
		}()
	}
}
