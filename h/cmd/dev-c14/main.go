// dev-c14: vcheck with only C14 linked in (development convenience).
package main

import (
	_ "verif/h/checks/c14"
	"verif/h/internal/core"
)

func main() { core.Main() }
