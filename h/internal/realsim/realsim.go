// Package realsim runs detsim's consensus simulation over chainkit nodes: the real
// LinkApplication, mempool, evidence pool and block executor behind every state machine.
package realsim

import (
	"github.com/lianxiangcloud/linkchain/app"
	"github.com/lianxiangcloud/linkchain/libs/crypto"
	"github.com/lianxiangcloud/linkchain/types"

	"verif/h/internal/chainkit"
	"verif/h/internal/detsim"
	"verif/h/internal/rng"
)

// CheckEvent is one CheckBlock call observed at a node's application.
type CheckEvent struct {
	Node   int
	Height uint64
	Hash   string
	OK     bool
}

// RealApp wraps the real application to report CommitBlock / CheckBlock calls.
type RealApp struct {
	*app.LinkApplication
	N        *chainkit.Node
	ID       int
	onCommit func(detsim.CommitEvent)
	Checks   []CheckEvent
}

func (a *RealApp) SetOnCommit(f func(detsim.CommitEvent)) { a.onCommit = f }
func (a *RealApp) CheckBlock(b *types.Block) bool {
	ok := a.LinkApplication.CheckBlock(b)
	if len(a.Checks) < 1000 {
		a.Checks = append(a.Checks, CheckEvent{a.ID, b.Height, b.Hash().String(), ok})
	}
	return ok
}
func (a *RealApp) CommitBlock(block *types.Block, parts *types.PartSet, seenCommit *types.Commit, fastsync bool) ([]*types.Validator, error) {
	vals, err := a.LinkApplication.CommitBlock(block, parts, seenCommit, fastsync)
	if err == nil && a.onCommit != nil {
		a.onCommit(detsim.CommitEvent{Node: a.ID, Height: block.Height, Hash: block.Hash(), Commit: seenCommit})
	}
	return vals, err
}
func (a *RealApp) Stored(h uint64) (*types.Block, *types.PartSet, *types.Commit) {
	if h > a.LinkApplication.Height() {
		return nil, nil, nil
	}
	meta := a.LoadBlockMeta(h)
	blk := a.LoadBlock(h)
	commit := a.LoadSeenCommit(h)
	if meta == nil || blk == nil || commit == nil {
		return nil, nil, nil
	}
	ps := types.NewPartSetFromHeader(meta.BlockID.PartsHeader)
	for i := 0; i < meta.BlockID.PartsHeader.Total; i++ {
		p := a.LoadBlockPart(h, i)
		if p == nil {
			return nil, nil, nil
		}
		if ok, _ := ps.AddPart(p); !ok {
			return nil, nil, nil
		}
	}
	return blk, ps, commit
}

// New builds a simulation whose correct validators run the real application from genesis g.
func New(r *rng.R, g *chainkit.Genesis, byz []bool, conf detsim.Config) (*detsim.Sim, map[int]*RealApp, error) {
	apps := map[int]*RealApp{}
	conf.Byz = byz
	conf.Powers = nil
	for _, v := range g.Vals {
		conf.Powers = append(conf.Powers, v.Power)
		conf.Keys = append(conf.Keys, crypto.PrivKeyEd25519(v.Priv))
	}
	conf.GenDoc = g.GenDoc
	conf.MakeNode = func(id int) (*detsim.NodeParts, error) {
		n, err := g.NewNode(chainkit.NodeOpts{})
		if err != nil {
			return nil, err
		}
		ra := &RealApp{LinkApplication: n.App, N: n, ID: id}
		apps[id] = ra
		return &detsim.NodeParts{App: ra, StatusDB: n.DBs["consensus_state"], BlockExec: n.BlockExec, Mempool: n.Mempool, EvPool: n.EvPool}, nil
	}
	s, err := detsim.New(r, conf)
	return s, apps, err
}
