package detsim

import (
	"fmt"
	"net"
	"path/filepath"
	"sync"
	"sync/atomic"
	"time"

	cfg "github.com/lianxiangcloud/linkchain/config"
	cs "github.com/lianxiangcloud/linkchain/consensus"
	"github.com/lianxiangcloud/linkchain/libs/common"
	cmn "github.com/lianxiangcloud/linkchain/libs/common"
	dbm "github.com/lianxiangcloud/linkchain/libs/db"
	"github.com/lianxiangcloud/linkchain/libs/log"
	"github.com/lianxiangcloud/linkchain/libs/p2p"
	"github.com/lianxiangcloud/linkchain/metrics"
	"github.com/lianxiangcloud/linkchain/types"

	"verif/h/internal/rng"
)

// Threaded lane (DESIGN.md §4.2 "C01-T"): the same N validators with their REAL goroutines —
// receiveRoutine, timeoutTicker, the ConsensusReactor's gossip routines, the WAL — wired by
// in-memory peers, run under the race detector. It explores goroutine interleavings that the
// deterministic simulator serialises away; the oracle is agreement + commit justification (+ the
// race detector). Wall-clock only drives the node's own timeouts; no verdict depends on it.

type memLink struct {
	q    chan memMsg
	stop chan struct{}
}
type memMsg struct {
	ch byte
	b  []byte
}

// memPeer is the object node `owner` holds for remote node `remote`.
type memPeer struct {
	cmn.BaseService
	owner, remote int
	net           *MemNet
	mtx           sync.Mutex
	data          map[string]interface{}
}

func (p *memPeer) ID() string                   { return fmt.Sprintf("node%d", p.remote) }
func (p *memPeer) RemoteAddr() net.Addr         { return net0{} }
func (p *memPeer) NodeInfo() p2p.NodeInfo       { return p2p.NodeInfo{} }
func (p *memPeer) IsOutbound() bool             { return p.owner < p.remote }
func (p *memPeer) Status() p2p.ConnectionStatus { return p2p.ConnectionStatus{} }
func (p *memPeer) Close() error                 { return nil }
func (p *memPeer) Set(k string, v interface{})  { p.mtx.Lock(); p.data[k] = v; p.mtx.Unlock() }
func (p *memPeer) Get(k string) interface{} {
	p.mtx.Lock()
	defer p.mtx.Unlock()
	return p.data[k]
}
func (p *memPeer) Send(ch byte, b []byte) bool    { return p.net.send(p.owner, p.remote, ch, b, true) }
func (p *memPeer) TrySend(ch byte, b []byte) bool { return p.net.send(p.owner, p.remote, ch, b, false) }

type net0 struct{}

func (net0) Network() string { return "mem" }
func (net0) String() string  { return "mem" }

type memPeerSet struct{ peers []p2p.Peer }

func (s memPeerSet) HasID(id string) bool { return s.GetByID(id) != nil }
func (s memPeerSet) HasIP(string) bool    { return false }
func (s memPeerSet) GetByID(id string) p2p.Peer {
	for _, p := range s.peers {
		if p.ID() == id {
			return p
		}
	}
	return nil
}
func (s memPeerSet) GetByIP(string) p2p.Peer { return nil }
func (s memPeerSet) List() []p2p.Peer        { return s.peers }
func (s memPeerSet) Size() int               { return len(s.peers) }

// memSwitch is node i's p2p.P2PManager.
type memSwitch struct {
	cmn.BaseService
	id      int
	net     *MemNet
	Stopped int32
}

func (s *memSwitch) GetByID(id string) p2p.Peer { return s.Peers().GetByID(id) }
func (s *memSwitch) StopPeerForError(p p2p.Peer, reason interface{}) {
	atomic.AddInt32(&s.Stopped, 1)
}
func (s *memSwitch) Reactor(string) p2p.Reactor                     { return nil }
func (s *memSwitch) AddReactor(n string, r p2p.Reactor) p2p.Reactor { return r }
func (s *memSwitch) Broadcast(ch byte, b []byte) chan bool {
	for _, p := range s.net.peersOf(s.id) {
		p.TrySend(ch, b)
	}
	return closedChan()
}
func (s *memSwitch) BroadcastE(ch byte, except string, b []byte) chan bool {
	for _, p := range s.net.peersOf(s.id) {
		if p.ID() != except {
			p.TrySend(ch, b)
		}
	}
	return closedChan()
}
func (s *memSwitch) Peers() p2p.IPeerSet {
	var l []p2p.Peer
	for _, p := range s.net.peersOf(s.id) {
		l = append(l, p)
	}
	return memPeerSet{l}
}
func (s *memSwitch) LocalNodeInfo() p2p.NodeInfo { return p2p.NodeInfo{} }
func (s *memSwitch) NumPeers() (int, int, int)   { return len(s.net.peersOf(s.id)), 0, 0 }
func (s *memSwitch) MarkBadNode(p2p.NodeInfo)    {}
func (s *memSwitch) CloseAllConnection()         {}

// TNode is one validator of the threaded lane.
type TNode struct {
	ID      int
	CS      *cs.ConsensusState
	Reactor *cs.ConsensusReactor
	App     *LightApp
	SW      *memSwitch
}

// MemNet is the in-memory network: one FIFO link per ordered pair (like a TCP connection), each
// drained by its own goroutine that calls the remote reactor's Receive and recovers panics the way
// MConnection does.
type MemNet struct {
	Nodes   []*TNode
	peers   map[[2]int]*memPeer
	links   map[[2]int]*memLink
	wg      sync.WaitGroup
	delayNs []int64 // per link jitter (seeded), widens interleavings
	mu      sync.Mutex
	// observations
	Commits       map[uint64]map[int]common.Hash
	Violations    []Violation
	ReceivePanics int32
	Delivered     int64
	ChainID       string
	ValSet        *types.ValidatorSet
	total         int64
}

func (n *MemNet) peersOf(id int) []*memPeer {
	var out []*memPeer
	for j := range n.Nodes {
		if j != id {
			if p := n.peers[[2]int{id, j}]; p != nil {
				out = append(out, p)
			}
		}
	}
	return out
}

func (n *MemNet) send(from, to int, ch byte, b []byte, block bool) bool {
	l := n.links[[2]int{from, to}]
	if l == nil {
		return false
	}
	m := memMsg{ch, append([]byte{}, b...)}
	if block {
		select {
		case l.q <- m:
			return true
		case <-l.stop:
			return false
		case <-time.After(2 * time.Second):
			return false
		}
	}
	select {
	case l.q <- m:
		return true
	default:
		return false
	}
}

func (n *MemNet) runLink(from, to int, l *memLink, jitter int64) {
	defer n.wg.Done()
	src := n.peers[[2]int{to, from}] // the object node `to` holds for node `from`
	i := int64(0)
	for {
		select {
		case <-l.stop:
			return
		case m := <-l.q:
			i++
			if jitter > 0 && i%3 == 0 {
				time.Sleep(time.Duration(jitter * (i % 5)))
			}
			func() {
				defer func() {
					if r := recover(); r != nil {
						atomic.AddInt32(&n.ReceivePanics, 1)
					}
				}()
				n.Nodes[to].Reactor.Receive(m.ch, src, m.b)
			}()
			atomic.AddInt64(&n.Delivered, 1)
		}
	}
}

func (n *MemNet) onCommit(ev CommitEvent) {
	n.mu.Lock()
	defer n.mu.Unlock()
	if n.Commits[ev.Height] == nil {
		n.Commits[ev.Height] = map[int]common.Hash{}
	}
	for other, h := range n.Commits[ev.Height] {
		if h != ev.Hash && len(n.Violations) < 5 {
			n.Violations = append(n.Violations, Violation{"agreement/different-blocks", fmt.Sprintf("height %d: node v%d committed %x, node v%d committed %x", ev.Height, other, h[:6], ev.Node, ev.Hash[:6])})
		}
	}
	n.Commits[ev.Height][ev.Node] = ev.Hash
	var sum int64
	round := -1
	if ev.Commit != nil {
		for i, pc := range ev.Commit.Precommits {
			if pc == nil || pc.Type != types.VoteTypePrecommit || pc.Height != ev.Height || pc.BlockID.Hash != ev.Hash {
				continue
			}
			if round == -1 {
				round = pc.Round
			}
			addr, val := n.ValSet.GetByIndex(i)
			if pc.Round != round || val == nil || string(addr) != string(pc.ValidatorAddress) || !val.PubKey.VerifyBytes(pc.SignBytes(n.ChainID), pc.Signature) {
				continue
			}
			sum += val.VotingPower
		}
	}
	if 3*sum <= 2*n.total && len(n.Violations) < 5 {
		n.Violations = append(n.Violations, Violation{"commit/unjustified", fmt.Sprintf("node v%d committed %x at height %d with only %d of %d correctly signed power in its seen-commit", ev.Node, ev.Hash[:6], ev.Height, sum, n.total)})
	}
}

// MinHeight returns the smallest committed height over all nodes.
func (n *MemNet) MinHeight() uint64 {
	m := uint64(1 << 62)
	for _, t := range n.Nodes {
		if h := t.App.Height(); h < m {
			m = h
		}
	}
	return m
}

// NewMemNet builds and starts N real nodes.
func NewMemNet(r *rng.R, powers []int64, scratch string) (*MemNet, error) {
	globals.Do(func() {
		metrics.PrometheusMetricInstance.Init(cfg.DefaultConfig(), detKey(rng.New(1)).PubKey(), log.NewNopLogger())
	})
	net := &MemNet{peers: map[[2]int]*memPeer{}, links: map[[2]int]*memLink{}, Commits: map[uint64]map[int]common.Hash{}, ChainID: "detsim-threaded"}
	kr := r.Split()
	params := types.DefaultConsensusParams()
	gd := &types.GenesisDoc{GenesisTime: "2019-01-01 00:00:00 +0000 UTC", ChainID: net.ChainID, ConsensusParams: params}
	var vals []*types.Validator
	var keys []ValKey
	for i, p := range powers {
		k := ValKey{Priv: detKey(kr), Power: p}
		keys = append(keys, k)
		gd.Validators = append(gd.Validators, types.GenesisValidator{PubKey: k.Priv.PubKey(), Power: p, Name: fmt.Sprintf("v%d", i)})
		vals = append(vals, &types.Validator{Address: k.Priv.PubKey().Address(), PubKey: k.Priv.PubKey(), VotingPower: p})
		net.total += p
	}
	if err := gd.ValidateAndComplete(); err != nil {
		return nil, err
	}
	net.ValSet = types.NewValidatorSet(vals)
	for i := range powers {
		db := dbm.NewMemDB()
		status, err := cs.CreateStatusFromGenesisDoc(db, gd)
		if err != nil {
			return nil, err
		}
		app := NewLightApp(i, net.ChainID, vals)
		app.OnCommit = net.onCommit
		cc := cfg.TestConsensusConfig()
		cmn.EnsureDir(filepath.Join(scratch, fmt.Sprintf("node%d", i), "cs.wal"), 0700)
		cc.SetWalFile(filepath.Join(scratch, fmt.Sprintf("node%d", i), "cs.wal", "wal"))
		cc.SkipTimeoutCommit = r.Bool()
		cc.CreateEmptyBlocks = true
		cc.CreateEmptyBlocksInterval = 0
		blockExec := cs.NewBlockExecutor(db, log.NewNopLogger(), cs.MockEvidencePool{})
		state := cs.NewConsensusState(cc, status.Copy(), blockExec, app, cs.MockMempool{}, cs.MockEvidencePool{})
		eb := types.NewEventBus()
		if err := eb.Start(); err != nil {
			return nil, err
		}
		state.SetEventBus(eb)
		state.SetLogger(log.NewNopLogger())
		path := filepath.Join(scratch, fmt.Sprintf("tpv-%d.json", i))
		pv := types.LoadOrGenFilePV(path)
		pv.UpdatePrikey(keys[i].Priv)
		pv.Save()
		state.SetPrivValidator(types.LoadFilePV(path))
		sw := &memSwitch{id: i, net: net}
		sw.BaseService = *cmn.NewBaseService(nil, "memSwitch", sw)
		reactor := cs.NewConsensusReactor(state, false, sw)
		reactor.SetLogger(log.NewNopLogger())
		net.Nodes = append(net.Nodes, &TNode{ID: i, CS: state, Reactor: reactor, App: app, SW: sw})
	}
	for i := range powers {
		for j := range powers {
			if i == j {
				continue
			}
			p := &memPeer{owner: i, remote: j, net: net, data: map[string]interface{}{}}
			p.BaseService = *cmn.NewBaseService(nil, "memPeer", p)
			p.Start() // the gossip routines exit at once for a peer that is not running
			net.peers[[2]int{i, j}] = p
			net.links[[2]int{i, j}] = &memLink{q: make(chan memMsg, 4096), stop: make(chan struct{})}
		}
	}
	for k, l := range net.links {
		net.wg.Add(1)
		go net.runLink(k[0], k[1], l, int64(r.Intn(4))*int64(50*time.Microsecond))
	}
	for _, t := range net.Nodes {
		if err := t.Reactor.Start(); err != nil {
			return nil, err
		}
	}
	for _, t := range net.Nodes {
		for _, p := range net.peersOf(t.ID) {
			t.Reactor.AddPeer(p)
		}
	}
	return net, nil
}

// Stop tears everything down.
func (n *MemNet) Stop() {
	for _, t := range n.Nodes {
		t.Reactor.Stop()
	}
	for _, l := range n.links {
		close(l.stop)
	}
	n.wg.Wait()
}
