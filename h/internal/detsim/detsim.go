// Package detsim is a deterministic simulation of N real ConsensusState
// objects driven from one goroutine through consensus/verif_hooks.go:
// a network pool, a seeded adversarial scheduler, Byzantine validators with
// real keys, and an online trace oracle (DESIGN.md §4.2, §5 C01).
package detsim

import (
	"fmt"
	"io/ioutil"
	"path/filepath"
	"sort"
	"sync"
	"time"

	cfg "github.com/lianxiangcloud/linkchain/config"
	cs "github.com/lianxiangcloud/linkchain/consensus"
	cstypes "github.com/lianxiangcloud/linkchain/consensus/types"
	"github.com/lianxiangcloud/linkchain/libs/common"
	"github.com/lianxiangcloud/linkchain/libs/crypto"
	dbm "github.com/lianxiangcloud/linkchain/libs/db"
	"github.com/lianxiangcloud/linkchain/libs/log"
	"github.com/lianxiangcloud/linkchain/metrics"
	"github.com/lianxiangcloud/linkchain/types"

	"verif/h/internal/rng"
)

// ---------------------------------------------------------------- light application

type storedBlock struct {
	block  *types.Block
	parts  *types.PartSet
	commit *types.Commit
}

// CommitEvent is one CommitBlock call observed at a node's application.
type CommitEvent struct {
	Node   int
	Height uint64
	Hash   common.Hash
	Commit *types.Commit
}

// LightApp is a minimal deterministic BlockChainApp: it stores blocks, accepts any
// block that extends its head, and reports every CommitBlock call.
type LightApp struct {
	mu       sync.RWMutex
	id       int
	genesis  *types.Block
	blocks   map[uint64]*storedBlock
	height   uint64
	counter  uint64
	vals     []*types.Validator
	OnCommit func(ev CommitEvent)
	// RejectBlock lets a scenario make CheckBlock fail for chosen blocks.
	RejectBlock func(b *types.Block) bool
}

func NewLightApp(id int, chainID string, vals []*types.Validator) *LightApp {
	g := &types.Block{Header: &types.Header{ChainID: chainID, Height: types.BlockHeightZero, Time: 1569409200}, Data: &types.Data{}, LastCommit: &types.Commit{}}
	return &LightApp{id: id, genesis: g, blocks: map[uint64]*storedBlock{}, vals: vals}
}

func (a *LightApp) head() *types.Block {
	if a.height == 0 {
		return a.genesis
	}
	return a.blocks[a.height].block
}
func (a *LightApp) Height() uint64 {
	a.mu.RLock()
	defer a.mu.RUnlock()
	return a.height
}
func (a *LightApp) LoadBlockMeta(height uint64) *types.BlockMeta {
	a.mu.RLock()
	defer a.mu.RUnlock()
	sb := a.blocks[height]
	if sb == nil {
		return nil
	}
	return types.NewBlockMeta(sb.block, sb.parts)
}
func (a *LightApp) LoadBlock(height uint64) *types.Block {
	a.mu.RLock()
	defer a.mu.RUnlock()
	if height == 0 {
		return a.genesis
	}
	if sb := a.blocks[height]; sb != nil {
		return sb.block
	}
	return nil
}
func (a *LightApp) LoadBlockPart(height uint64, index int) *types.Part {
	a.mu.RLock()
	defer a.mu.RUnlock()
	if sb := a.blocks[height]; sb != nil {
		return sb.parts.GetPart(index)
	}
	return nil
}

// copyCommit returns a fresh Commit object: the real block store decodes a new object on every load, and
// Commit caches derived fields lazily without synchronisation, so sharing one object between the reactor's
// per-peer goroutines would manufacture a race the node cannot have.
func copyCommit(c *types.Commit) *types.Commit {
	if c == nil {
		return nil
	}
	return &types.Commit{BlockID: c.BlockID, Precommits: append([]*types.Vote{}, c.Precommits...)}
}
func (a *LightApp) LoadBlockCommit(height uint64) *types.Commit {
	a.mu.RLock()
	defer a.mu.RUnlock()
	if sb := a.blocks[height+1]; sb != nil {
		return copyCommit(sb.block.LastCommit)
	}
	return nil
}
func (a *LightApp) LoadSeenCommit(height uint64) *types.Commit {
	a.mu.RLock()
	defer a.mu.RUnlock()
	if sb := a.blocks[height]; sb != nil {
		return copyCommit(sb.commit)
	}
	return nil
}
func (a *LightApp) GetValidators(height uint64) []*types.Validator            { return nil }
func (a *LightApp) GetRecoverValidators(height uint64) []*types.Validator     { return a.vals }
func (a *LightApp) SetLastChangedVals(height uint64, vals []*types.Validator) {}
func (a *LightApp) CreateBlock(height uint64, maxTxs int, gasLimit uint64, timeUnix uint64) *types.Block {
	a.mu.Lock()
	defer a.mu.Unlock()
	if height != a.height+1 {
		return nil
	}
	a.counter++
	h := a.head()
	b := &types.Block{
		Header: &types.Header{
			Height: height,
			// unique per (node, call): proposals of different rounds/proposers are different blocks
			Time:       1569409200 + uint64(a.id)*1000000 + a.counter,
			NumTxs:     0,
			TotalTxs:   h.TotalTxs,
			ParentHash: h.Hash(),
			GasLimit:   gasLimit,
		},
		Data: &types.Data{},
	}
	b.DataHash = b.Data.Hash()
	return b
}
func (a *LightApp) PreRunBlock(block *types.Block) {}
func (a *LightApp) CheckBlock(block *types.Block) bool {
	a.mu.RLock()
	defer a.mu.RUnlock()
	if block.Height != a.height+1 || block.ParentHash != a.head().Hash() {
		return false
	}
	if a.RejectBlock != nil && a.RejectBlock(block) {
		return false
	}
	return true
}
func (a *LightApp) CommitBlock(block *types.Block, blockParts *types.PartSet, seenCommit *types.Commit, fastsync bool) ([]*types.Validator, error) {
	if block.Height != a.Height()+1 {
		return nil, fmt.Errorf("lightapp: commit height %d on head %d", block.Height, a.height)
	}
	a.mu.Lock()
	a.blocks[block.Height] = &storedBlock{block, blockParts, seenCommit}
	a.height = block.Height
	a.mu.Unlock()
	if a.OnCommit != nil {
		a.OnCommit(CommitEvent{Node: a.id, Height: block.Height, Hash: block.Hash(), Commit: seenCommit})
	}
	return nil, nil
}

// Stored returns what the application stored for height h.
func (a *LightApp) Stored(h uint64) (*types.Block, *types.PartSet, *types.Commit) {
	a.mu.RLock()
	defer a.mu.RUnlock()
	if sb := a.blocks[h]; sb != nil {
		return sb.block, sb.parts, sb.commit
	}
	return nil, nil, nil
}
func (a *LightApp) SetOnCommit(f func(CommitEvent)) { a.OnCommit = f }

// SimApp is what the simulator needs from a node's application.
type SimApp interface {
	cs.BlockChainApp
	Stored(h uint64) (*types.Block, *types.PartSet, *types.Commit)
	SetOnCommit(f func(CommitEvent))
}

// NodeParts lets a caller supply a node built elsewhere (chainkit: the real application).
type NodeParts struct {
	App       SimApp
	StatusDB  dbm.DB
	BlockExec *cs.BlockExecutor
	Mempool   cs.Mempool
	EvPool    cs.EvidencePool
}

// ---------------------------------------------------------------- nodes

type ValKey struct {
	Priv  crypto.PrivKeyEd25519
	Power int64
	Byz   bool
}

type Node struct {
	ID         int
	Key        ValKey
	CS         *cs.ConsensusState
	App        SimApp
	PV         *types.FilePV
	DB         dbm.DB
	Dead       bool   // state machine panicked (consensus halted on this node)
	Panic      string // first panic
	fired      int    // number of entries of VerifScheduled already offered
	seen       map[int]bool
	lastTO     cs.VerifTimeout
	caught     map[uint64]int
	regossiped map[[2]uint64]int
}

// PoolMsg is a message in the network pool.
type PoolMsg struct {
	ID     int
	From   int // node id of the sender (index into Sim.Vals)
	Msg    cs.ConsensusMessage
	Height uint64
	Round  int
	Kind   string       // proposal | part | prevote | precommit
	Only   map[int]bool // if non-nil: deliverable only to these nodes (selective delivery)
	Byz    bool
}

type Sim struct {
	R        *rng.R
	ChainID  string
	Vals     []ValKey // all validators in genesis order (index = id)
	ValSet   *types.ValidatorSet
	Nodes    []*Node // correct nodes only (Node.ID indexes Vals)
	NodeByID map[int]*Node
	Pool     []*PoolMsg
	nextMsg  int
	Scratch  string
	Conf     Config
	Steps    int
	Trace    []string // decision log (replay aid, sample)
	Mon      *Monitor
	GenDoc   *types.GenesisDoc
	lost     map[[2]int]bool
	// DropFilter, if set, makes matching (message, node) pairs undeliverable (scripted loss).
	DropFilter                                                                  func(pm *PoolMsg, n *Node) bool
	TimeoutsFired, StaleFired, Delivered, Dups, ByzActions, CatchUps, Regossips int
}

type Config struct {
	Powers    []int64
	Byz       []bool
	Heights   int
	MaxSteps  int
	Loss      float64 // probability that a (message,target) pair is never delivered
	Eager     float64 // probability to fire a timeout although deliveries are pending
	StaleTO   float64 // probability that a fired timeout is a stale/superseded one
	DupProb   float64
	ByzRate   float64 // probability of a Byzantine action per step
	PartSize  int
	Scratch   string
	KeepTrace bool
	MockPV    bool
	// GossipSleepMs, if > 0, replaces the reactor's per-peer gossip / maj23-query sleep (milliseconds).
	GossipSleepMs int
	// Real-application mode: the validator keys, genesis document and per-node parts come from the caller.
	Keys     []crypto.PrivKeyEd25519
	GenDoc   *types.GenesisDoc
	MakeNode func(id int) (*NodeParts, error)
}

var globals sync.Once

func detKey(r *rng.R) crypto.PrivKeyEd25519 { return crypto.GenPrivKeyEd25519FromSecret(r.Bytes(32)) }

func consensusConfig() *cfg.ConsensusConfig {
	c := cfg.DefaultConsensusConfig()
	c.SkipTimeoutCommit = false
	c.CreateEmptyBlocks = true
	c.CreateEmptyBlocksInterval = 0
	return c
}

// New builds the simulation: genesis, validator set, one real ConsensusState per correct validator.
func New(r *rng.R, conf Config) (*Sim, error) {
	globals.Do(func() {
		// node.NewNode initialises the metrics singleton with the validator key; ApplyBlock reads it.
		metrics.PrometheusMetricInstance.Init(cfg.DefaultConfig(), crypto.GenPrivKeyEd25519FromSecret([]byte("verif-metrics")).PubKey(), log.NewNopLogger())
	})
	s := &Sim{R: r, ChainID: "detsim", Conf: conf, Scratch: conf.Scratch, NodeByID: map[int]*Node{}, lost: map[[2]int]bool{}}
	kr := r.Split()
	for i, p := range conf.Powers {
		k := detKey(kr)
		if conf.Keys != nil {
			k = conf.Keys[i]
		}
		s.Vals = append(s.Vals, ValKey{Priv: k, Power: p, Byz: conf.Byz[i]})
	}
	params := types.DefaultConsensusParams()
	if conf.PartSize > 0 {
		params.BlockGossip.BlockPartSizeBytes = conf.PartSize
	}
	gd := &types.GenesisDoc{GenesisTime: "2019-01-01 00:00:00 +0000 UTC", ChainID: s.ChainID, ConsensusParams: params}
	var vals []*types.Validator
	for i, v := range s.Vals {
		gd.Validators = append(gd.Validators, types.GenesisValidator{PubKey: v.Priv.PubKey(), Power: v.Power, Name: fmt.Sprintf("v%d", i)})
		vals = append(vals, &types.Validator{Address: v.Priv.PubKey().Address(), PubKey: v.Priv.PubKey(), VotingPower: v.Power})
	}
	if err := gd.ValidateAndComplete(); err != nil {
		return nil, err
	}
	if conf.GenDoc != nil {
		gd = conf.GenDoc
		s.ChainID = gd.ChainID
	}
	s.GenDoc = gd
	s.ValSet = types.NewValidatorSet(vals)
	s.Mon = NewMonitor(s)
	for i, v := range s.Vals {
		if v.Byz {
			continue
		}
		var n *Node
		var err error
		if conf.MakeNode != nil {
			var np *NodeParts
			if np, err = conf.MakeNode(i); err == nil {
				n, err = s.newNodeFrom(i, np)
			}
		} else {
			n, err = s.newNode(i, dbm.NewMemDB(), NewLightApp(i, s.ChainID, vals))
		}
		if err != nil {
			return nil, err
		}
		s.Nodes = append(s.Nodes, n)
		s.NodeByID[i] = n
	}
	return s, nil
}

func (s *Sim) newNode(id int, db dbm.DB, app *LightApp) (*Node, error) {
	return s.newNodeFrom(id, &NodeParts{App: app, StatusDB: db})
}

func (s *Sim) newNodeFrom(id int, np *NodeParts) (*Node, error) {
	db := np.StatusDB
	status, err := cs.LoadStatus(db)
	if err != nil || status.IsEmpty() {
		status, err = cs.CreateStatusFromGenesisDoc(db, s.GenDoc)
		if err != nil {
			return nil, err
		}
	}
	n := &Node{ID: id, Key: s.Vals[id], App: np.App, DB: db, seen: map[int]bool{}}
	np.App.SetOnCommit(s.Mon.OnCommit)
	blockExec := np.BlockExec
	if blockExec == nil {
		blockExec = cs.NewBlockExecutor(db, log.NewNopLogger(), cs.MockEvidencePool{})
	}
	var mp cs.Mempool = cs.MockMempool{}
	if np.Mempool != nil {
		mp = np.Mempool
	}
	var ep cs.EvidencePool = cs.MockEvidencePool{}
	if np.EvPool != nil {
		ep = np.EvPool
	}
	cc := consensusConfig()
	if s.Conf.GossipSleepMs > 0 {
		// lanes that run the reactor's per-peer gossip goroutines want them to iterate quickly
		cc.PeerGossipSleepDuration = s.Conf.GossipSleepMs
		cc.PeerQueryMaj23SleepDuration = s.Conf.GossipSleepMs
	}
	n.CS = cs.NewConsensusState(cc, status.Copy(), blockExec, np.App, mp, ep)
	eb := types.NewEventBus()
	if err := eb.Start(); err != nil {
		return nil, err
	}
	n.CS.SetEventBus(eb)
	n.CS.SetLogger(log.NewNopLogger())
	if s.Conf.MockPV {
		return nil, fmt.Errorf("MockPV lane not built")
	}
	path := filepath.Join(s.Scratch, fmt.Sprintf("pv-%d.json", id))
	pv := types.LoadOrGenFilePV(path)
	pv.UpdatePrikey(s.Vals[id].Priv)
	pv.Save()
	n.PV = types.LoadFilePV(path)
	n.CS.SetPrivValidator(n.PV)
	if err := n.CS.VerifInitSim(nil); err != nil {
		return nil, err
	}
	n.CS.VerifScheduleRound0()
	return n, nil
}

// ---------------------------------------------------------------- helpers

func (s *Sim) TotalPower() int64 {
	var t int64
	for _, v := range s.Vals {
		t += v.Power
	}
	return t
}

func (s *Sim) valIndexByAddr(addr []byte) int {
	for i, v := range s.Vals {
		if string(v.Priv.PubKey().Address()) == string(addr) {
			return i
		}
	}
	return -1
}

func classify(m cs.ConsensusMessage) (kind string, h uint64, r int) {
	switch v := m.(type) {
	case *cs.ProposalMessage:
		return "proposal", v.Proposal.Height, v.Proposal.Round
	case *cs.BlockPartMessage:
		return "part", v.Height, v.Round
	case *cs.VoteMessage:
		if v.Vote.Type == types.VoteTypePrevote {
			return "prevote", v.Vote.Height, v.Vote.Round
		}
		return "precommit", v.Vote.Height, v.Vote.Round
	}
	return "other", 0, 0
}

func (s *Sim) post(from int, m cs.ConsensusMessage, only map[int]bool, byz bool) *PoolMsg {
	k, h, r := classify(m)
	pm := &PoolMsg{ID: s.nextMsg, From: from, Msg: m, Height: h, Round: r, Kind: k, Only: only, Byz: byz}
	s.nextMsg++
	s.Pool = append(s.Pool, pm)
	return pm
}

func (s *Sim) logf(format string, a ...interface{}) {
	if s.Conf.KeepTrace && len(s.Trace) < 4000 {
		s.Trace = append(s.Trace, fmt.Sprintf(format, a...))
	}
}

// Drain is drain, exported.
func (s *Sim) Drain(n *Node) { s.drain(n) }

// drain processes node n's own queued messages and publishes what it emitted.
func (s *Sim) drain(n *Node) {
	if n.Dead {
		return
	}
	out, p, stack := n.CS.VerifDrainInternal()
	for _, m := range out {
		s.Mon.OnEmit(n, m)
		s.post(n.ID, m, nil, false)
		if pm, ok := m.(*cs.ProposalMessage); ok && s.Mon.HeldCheck && p == nil {
			// an honest proposer has processed its own proposal and parts by now: its encoding is the truth
			if ps := n.CS.GetRoundState().ProposalBlockParts; ps != nil && ps.IsComplete() && ps.HasHeader(pm.Proposal.BlockPartsHeader) {
				if bz, err := ioutil.ReadAll(ps.GetReader()); err == nil {
					s.Mon.NoteProposalBytes(ps.Header(), bz)
				}
			}
		}
	}
	if p != nil {
		s.nodePanic(n, p, stack, "own message")
		return
	}
	s.Mon.checkHeld(n)
}

func (s *Sim) nodePanic(n *Node, p interface{}, stack, what string) {
	if !n.Dead {
		n.Dead = true
		n.Panic = fmt.Sprintf("%v", p)
		s.Mon.OnPanic(n, p, stack, what)
	}
}

// Deliver hands pool message pm to node n as a peer message, then drains n.
func (s *Sim) Deliver(pm *PoolMsg, n *Node) {
	if n.Dead {
		return
	}
	if n.seen[pm.ID] {
		s.Dups++
	}
	n.seen[pm.ID] = true
	s.Delivered++
	s.Mon.OnDeliver(n, pm)
	s.logf("deliver m%d(%s %d/%d from v%d) -> n%d", pm.ID, pm.Kind, pm.Height, pm.Round, pm.From, n.ID)
	p, stack := n.CS.VerifHandlePeerMsg(pm.Msg, fmt.Sprintf("peer%d", pm.From))
	if p != nil {
		s.nodePanic(n, p, stack, "peer message "+pm.Kind)
		return
	}
	s.drain(n)
}

// armed returns the timeout the real ticker would currently have armed for n:
// the last scheduled one that was not superseded (ticker ignores older H/R/S).
// Armed is exported for diagnostics.
func (s *Sim) Armed(n *Node) (cs.VerifTimeout, bool) { return s.armed(n) }

func (s *Sim) armed(n *Node) (cs.VerifTimeout, bool) {
	sch := n.CS.VerifScheduled()
	var cur cs.VerifTimeout
	have := false
	for _, t := range sch {
		if have {
			if t.Height < cur.Height {
				continue
			} else if t.Height == cur.Height {
				if t.Round < cur.Round {
					continue
				} else if t.Round == cur.Round && cur.Step > 0 && t.Step <= cur.Step {
					continue
				}
			}
		}
		cur, have = t, true
	}
	return cur, have
}

// FireTimeout fires a timeout at n (the armed one, or a stale one).
func (s *Sim) FireTimeout(n *Node, stale bool) bool {
	if n.Dead {
		return false
	}
	var t cs.VerifTimeout
	if stale {
		sch := n.CS.VerifScheduled()
		if len(sch) == 0 {
			return false
		}
		t = sch[s.R.Intn(len(sch))]
		s.StaleFired++
	} else {
		a, ok := s.armed(n)
		if !ok || a == n.lastTO {
			return false
		}
		t = a
		n.lastTO = a
	}
	s.TimeoutsFired++
	s.logf("timeout n%d %d/%d/%v stale=%v", n.ID, t.Height, t.Round, t.Step, stale)
	p, stack := n.CS.VerifHandleTimeout(t)
	if p != nil {
		s.nodePanic(n, p, stack, "timeout")
		return true
	}
	s.drain(n)
	return true
}

// deliverable lists (message, node) pairs not yet delivered and not lost.
func (s *Sim) deliverable() [][2]int {
	var out [][2]int
	for pi, pm := range s.Pool {
		for ni, n := range s.Nodes {
			if n.Dead || n.ID == pm.From || n.seen[pm.ID] || s.lost[[2]int{pm.ID, n.ID}] {
				continue
			}
			if pm.Only != nil && !pm.Only[n.ID] {
				continue
			}
			if s.DropFilter != nil && s.DropFilter(pm, n) {
				continue
			}
			rs := n.CS.GetRoundState()
			if pm.Height < rs.Height && !(pm.Kind == "precommit" && pm.Height+1 == rs.Height) {
				continue // stale for this node: would be ignored anyway
			}
			out = append(out, [2]int{pi, ni})
		}
	}
	return out
}

func (s *Sim) prune() {
	minH := uint64(1 << 62)
	for _, n := range s.Nodes {
		if !n.Dead {
			if h := n.CS.GetRoundState().Height; h < minH {
				minH = h
			}
		}
	}
	if len(s.Pool) < 400 {
		return
	}
	var keep []*PoolMsg
	for _, pm := range s.Pool {
		if pm.Height+1 >= minH {
			keep = append(keep, pm)
		}
	}
	s.Pool = keep
}

func (s *Sim) minHeightCommitted() uint64 {
	m := uint64(1 << 62)
	for _, n := range s.Nodes {
		if n.Dead {
			continue
		}
		if h := n.App.Height(); h < m {
			m = h
		}
	}
	return m
}

// Run executes the random adversarial schedule until the target heights are committed
// everywhere or MaxSteps is reached.
func (s *Sim) Run() {
	for s.Steps = 0; s.Steps < s.Conf.MaxSteps; s.Steps++ {
		if s.Mon.Fatal() {
			return
		}
		if s.minHeightCommitted() >= uint64(s.Conf.Heights) {
			return
		}
		alive := 0
		for _, n := range s.Nodes {
			if !n.Dead {
				alive++
			}
		}
		if alive == 0 {
			return
		}
		s.prune()
		if s.R.Chance(s.Conf.ByzRate) {
			s.byzAct()
			continue
		}
		dl := s.deliverable()
		if len(dl) > 0 && !s.R.Chance(s.Conf.Eager) {
			// prefer older messages slightly (FIFO-ish with random reordering)
			var pick [2]int
			if s.R.Chance(0.5) {
				pick = dl[s.R.Intn((len(dl)+3)/4)]
			} else {
				pick = dl[s.R.Intn(len(dl))]
			}
			pm, n := s.Pool[pick[0]], s.Nodes[pick[1]]
			if s.R.Chance(s.Conf.Loss) {
				s.lost[[2]int{pm.ID, n.ID}] = true
				s.logf("lose m%d -> n%d", pm.ID, n.ID)
				continue
			}
			s.Deliver(pm, n)
			if s.R.Chance(s.Conf.DupProb) {
				s.Deliver(pm, n)
			}
			continue
		}
		if s.R.Chance(0.3) && s.CatchUpLagging() {
			continue
		}
		// timeouts
		n := s.Nodes[s.R.Intn(len(s.Nodes))]
		if !s.FireTimeout(n, s.R.Chance(s.Conf.StaleTO)) {
			// try any node with an armed timeout
			for _, i := range s.R.Perm(len(s.Nodes)) {
				if s.FireTimeout(s.Nodes[i], false) {
					break
				}
			}
		}
	}
}

// ---------------------------------------------------------------- Byzantine validators

func (s *Sim) byzIDs() []int {
	var ids []int
	for i, v := range s.Vals {
		if v.Byz {
			ids = append(ids, i)
		}
	}
	return ids
}

func (s *Sim) signVote(id int, typ byte, h uint64, r int, bid types.BlockID) *types.Vote {
	return s.signVoteTS(id, typ, h, r, bid, 0)
}

// signVoteTS signs the same vote content with a shifted timestamp: a different, equally valid signature.
func (s *Sim) signVoteTS(id int, typ byte, h uint64, r int, bid types.BlockID, shift int) *types.Vote {
	k := s.Vals[id]
	addr := k.Priv.PubKey().Address()
	idx, _ := s.ValSet.GetByAddress(addr)
	v := &types.Vote{ValidatorAddress: addr, ValidatorIndex: idx, ValidatorSize: s.ValSet.Size(), Height: h, Round: r,
		Timestamp: time.Unix(1569409200+int64(s.Steps)+int64(shift)*100000, 0).UTC(), Type: typ, BlockID: bid}
	sig, _ := k.Priv.Sign(v.SignBytes(s.ChainID))
	v.Signature = sig
	return v
}

// knownBlockIDs returns the block ids proposed (by anyone) at height h.
func (s *Sim) knownBlockIDs(h uint64) []types.BlockID {
	seen := map[string]bool{}
	var out []types.BlockID
	for _, pm := range s.Pool {
		if pm.Kind == "prevote" || pm.Kind == "precommit" {
			v := pm.Msg.(*cs.VoteMessage).Vote
			if v.Height == h && !v.BlockID.IsZero() && !seen[v.BlockID.Key()] {
				seen[v.BlockID.Key()] = true
				out = append(out, v.BlockID)
			}
		}
	}
	for _, b := range s.Mon.proposedIDs[h] {
		if !seen[b.Key()] {
			seen[b.Key()] = true
			out = append(out, b)
		}
	}
	sort.Slice(out, func(i, j int) bool { return out[i].Key() < out[j].Key() })
	return out
}

func (s *Sim) subset() map[int]bool {
	m := map[int]bool{}
	for _, n := range s.Nodes {
		if s.R.Bool() {
			m[n.ID] = true
		}
	}
	return m
}
func (s *Sim) complement(a map[int]bool) map[int]bool {
	m := map[int]bool{}
	for _, n := range s.Nodes {
		if !a[n.ID] {
			m[n.ID] = true
		}
	}
	return m
}

// byzAct lets one Byzantine validator do something hostile but protocol-shaped.
func (s *Sim) byzAct() {
	ids := s.byzIDs()
	if len(ids) == 0 || len(s.Nodes) == 0 {
		return
	}
	s.ByzActions++
	id := ids[s.R.Intn(len(ids))]
	ref := s.Nodes[s.R.Intn(len(s.Nodes))]
	if ref.Dead {
		return
	}
	rs := ref.CS.GetRoundState()
	h, r := rs.Height, rs.Round
	if s.R.Chance(0.25) && r > 0 {
		r = s.R.Intn(r + 1)
	}
	if s.R.Chance(0.15) {
		r += 1 + s.R.Intn(2)
	}
	ids2 := s.knownBlockIDs(h)
	pickID := func() types.BlockID {
		if len(ids2) == 0 || s.R.Chance(0.2) {
			return types.BlockID{}
		}
		return ids2[s.R.Intn(len(ids2))]
	}
	typ := types.VoteTypePrevote
	if s.R.Bool() {
		typ = types.VoteTypePrecommit
	}
	switch a := s.R.Intn(12); {
	case a >= 10: // re-count attempt: a peer claims +2/3 for X at the target (VoteSetMaj23, any peer may send it),
		// the Byzantine validator's canonical vote there is for something else, and it then repeats its vote for X
		// several times with fresh timestamps (fresh valid signatures). It must still count once.
		x := pickID()
		if x.IsZero() {
			return
		}
		if rsv := ref.CS.GetRoundState(); rsv.Votes != nil && rsv.Height == h {
			only := map[int]bool{ref.ID: true}
			s.post(id, &cs.VoteMessage{Vote: s.signVote(id, typ, h, r, types.BlockID{})}, only, true)
			rsv.Votes.SetPeerMaj23(r, typ, fmt.Sprintf("peer%d", id), x)
			for k := 1; k <= 3; k++ {
				s.post(id, &cs.VoteMessage{Vote: s.signVoteTS(id, typ, h, r, x, k)}, only, true)
			}
			s.Mon.count("byz_recount_attempts", 1)
		}
	case a < 4: // equivocate: two different votes to disjoint sets
		b1, b2 := pickID(), pickID()
		if b1.Equals(b2) {
			b2 = types.BlockID{}
			if b1.IsZero() {
				var hh common.Hash
				copy(hh[:], s.R.Bytes(32))
				b2 = types.BlockID{Hash: hh, PartsHeader: types.PartSetHeader{Total: 1, Hash: hh.Bytes()}}
			}
		}
		set := s.subset()
		s.post(id, &cs.VoteMessage{Vote: s.signVote(id, typ, h, r, b1)}, set, true)
		s.post(id, &cs.VoteMessage{Vote: s.signVote(id, typ, h, r, b2)}, s.complement(set), true)
		s.Mon.count("byz_equivocations", 1)
		s.logf("byz v%d equivocates %d/%d type %d", id, h, r, typ)
	case a < 7: // support some value, to everybody or selectively
		var only map[int]bool
		if s.R.Bool() {
			only = s.subset()
		}
		s.post(id, &cs.VoteMessage{Vote: s.signVote(id, typ, h, r, pickID())}, only, true)
		s.Mon.count("byz_votes", 1)
	case a < 9: // propose (possibly two conflicting proposals) if it is (or is not) its turn
		s.byzPropose(id, ref, h, rs.Round)
	default: // replay an old vote of its own at a later time
		for _, pm := range s.Pool {
			if pm.From == id && (pm.Kind == "prevote" || pm.Kind == "precommit") {
				s.post(id, pm.Msg, nil, true)
				s.Mon.count("byz_replays", 1)
				break
			}
		}
	}
}

func (s *Sim) byzPropose(id int, ref *Node, h uint64, r int) {
	rs := ref.CS.GetRoundState()
	prop := rs.Validators.GetProposer()
	isTurn := string(prop.Address) == string(s.Vals[id].Priv.PubKey().Address())
	if !isTurn && !s.R.Chance(0.2) {
		return
	}
	nvar := 1
	if s.R.Chance(0.6) {
		nvar = 2
	}
	set := s.subset()
	for v := 0; v < nvar; v++ {
		block, _, p := ref.CS.VerifCreateProposalBlock()
		if p != nil || block == nil {
			return
		}
		block.Header.Time += uint64(7000000 + 10*s.Steps + v) // make the variants distinct blocks
		parts := block.MakePartSet(s.GenDoc.ConsensusParams.BlockGossip.BlockPartSizeBytes)
		polRound, polID := -1, types.BlockID{}
		if s.R.Chance(0.2) && r > 0 {
			polRound = s.R.Intn(r)
			if ids := s.knownBlockIDs(h); len(ids) > 0 {
				polID = ids[s.R.Intn(len(ids))]
			}
		}
		pr := types.NewProposal(h, r, parts.Header(), polRound, polID)
		pr.Timestamp = time.Unix(1569409200+int64(s.Steps), 0).UTC()
		pr.Type = types.ProposalTypeNormal
		sig, _ := s.Vals[id].Priv.Sign(pr.SignBytes(s.ChainID))
		pr.Signature = sig
		var only map[int]bool
		if nvar == 2 {
			if v == 0 {
				only = set
			} else {
				only = s.complement(set)
			}
		} else if s.R.Chance(0.3) {
			only = s.subset()
		}
		s.Mon.noteProposal(h, types.BlockID{Hash: block.Hash(), PartsHeader: parts.Header()})
		s.post(id, &cs.ProposalMessage{Proposal: pr}, only, true)
		for i := 0; i < parts.Total(); i++ {
			s.post(id, &cs.BlockPartMessage{Height: h, Round: r, Part: parts.GetPart(i)}, only, true)
		}
		if isTurn {
			s.Mon.count("byz_proposals_in_turn", 1)
		} else {
			s.Mon.count("byz_proposals_out_of_turn", 1)
		}
	}
	if nvar == 2 && isTurn {
		s.Mon.count("byz_conflicting_proposals", 1)
	}
}

// StepName is used in samples.
func StepName(s cstypes.RoundStepType) string { return s.String() }

// PostAll publishes a message of validator `from` to every node (used by scripted adversaries).
func (s *Sim) PostAll(from int, m cs.ConsensusMessage) { s.post(from, m, nil, true) }

// SignVote signs a vote with validator id's key.
func (s *Sim) SignVote(id int, typ byte, h uint64, r int, bid types.BlockID) *types.Vote {
	return s.signVote(id, typ, h, r, bid)
}
