package detsim

import (
	"fmt"
	"regexp"
	"strings"

	cs "github.com/lianxiangcloud/linkchain/consensus"
	"github.com/lianxiangcloud/linkchain/libs/common"
	"github.com/lianxiangcloud/linkchain/types"
)

// Violation is what the trace oracle reports.
type Violation struct {
	Key    string
	Detail string
}

type hrt struct {
	H uint64
	R int
	T byte
}

type lockInfo struct {
	Key   string
	Round int
}

// Monitor is the online trace oracle. All of its bookkeeping (votes emitted, votes
// delivered, locks) is its own, derived from the emission and delivery logs; it never
// reads RoundState.
type Monitor struct {
	s            *Sim
	Counters     map[string]int64
	Violations   []Violation
	own          map[int]map[hrt]types.BlockID           // node -> (H,R,type) -> vote emitted
	delivered    map[int]map[hrt]map[int]map[string]bool // node -> (H,R,type) -> validator -> block keys delivered (valid signatures only)
	locks        map[int]map[uint64]lockInfo             // node -> height -> last non-nil precommit
	commits      map[uint64]map[int]common.Hash
	commitRounds map[uint64]map[int]bool
	proposedIDs  map[uint64][]types.BlockID
	maxRound     int
	// proposer views: (height, round) -> proposer address as seen by the first node observed there
	proposerAt map[[2]uint64]string
	proposerBy map[[2]uint64]int
	// ProposerMismatch collects disagreements between correct nodes about who proposes at (H,R)
	// (C17: the proposer must not depend on how a node reached the round).
	ProposerMismatch []Violation
	// VoteHook, if set, sees every vote a correct node emits (after the built-in checks).
	VoteHook func(n *Node, v *types.Vote)
	// LockRecordCheck: after a non-nil precommit the node's RoundState must record the lock at that round.
	LockRecordCheck bool
	// HeldCheck enables the held-block monitor (held.go).
	HeldCheck     bool
	proposalBytes map[string][]byte
}

func NewMonitor(s *Sim) *Monitor {
	return &Monitor{s: s, Counters: map[string]int64{}, own: map[int]map[hrt]types.BlockID{}, delivered: map[int]map[hrt]map[int]map[string]bool{},
		locks: map[int]map[uint64]lockInfo{}, commits: map[uint64]map[int]common.Hash{}, commitRounds: map[uint64]map[int]bool{}, proposedIDs: map[uint64][]types.BlockID{}}
}

func (m *Monitor) count(k string, n int64) { m.Counters[k] += n }
func (m *Monitor) Fatal() bool             { return len(m.Violations) > 0 }

// Violate lets a check add its own violations to the trace oracle's list.
func (m *Monitor) Violate(key, detail string) { m.violate(key, "%s", detail) }

func (m *Monitor) violate(key, format string, a ...interface{}) {
	if len(m.Violations) < 10 {
		m.Violations = append(m.Violations, Violation{key, fmt.Sprintf(format, a...)})
	}
}
func (m *Monitor) noteProposal(h uint64, b types.BlockID) {
	m.proposedIDs[h] = append(m.proposedIDs[h], b)
}

func bkey(b types.BlockID) string {
	if b.IsZero() {
		return "nil"
	}
	return b.Key()
}

func (m *Monitor) recordDelivered(node int, v *types.Vote) {
	// only correctly attributed, correctly signed votes count
	idx := m.s.valIndexByAddr(v.ValidatorAddress)
	if idx < 0 {
		return
	}
	vi, val := m.s.ValSet.GetByAddress(v.ValidatorAddress)
	if val == nil || vi != v.ValidatorIndex {
		return
	}
	if !val.PubKey.VerifyBytes(v.SignBytes(m.s.ChainID), v.Signature) {
		m.count("delivered_bad_signature", 1)
		return
	}
	k := hrt{v.Height, v.Round, v.Type}
	if m.delivered[node] == nil {
		m.delivered[node] = map[hrt]map[int]map[string]bool{}
	}
	if m.delivered[node][k] == nil {
		m.delivered[node][k] = map[int]map[string]bool{}
	}
	if m.delivered[node][k][idx] == nil {
		m.delivered[node][k][idx] = map[string]bool{}
	}
	m.delivered[node][k][idx][bkey(v.BlockID)] = true
	if len(m.delivered[node][k][idx]) > 1 {
		m.count("equivocations_delivered_to_one_node", 1)
	}
}

// tally is generous to the node: a validator counts for key if ANY vote of it delivered
// to the node at (H,R,type) is for key. The node cannot have counted more than this.
func (m *Monitor) tally(node int, k hrt, key string) int64 {
	var sum int64
	for idx, keys := range m.delivered[node][k] {
		if keys[key] {
			sum += m.s.Vals[idx].Power
		}
	}
	return sum
}

func (m *Monitor) polkaValues(node int, k hrt) []string {
	seen := map[string]bool{}
	var out []string
	for _, keys := range m.delivered[node][k] {
		for key := range keys {
			if !seen[key] {
				seen[key] = true
				if 3*m.tally(node, k, key) > 2*m.s.TotalPower() {
					out = append(out, key)
				}
			}
		}
	}
	return out
}

// NoteDelivered tells the oracle about a vote that reached node n outside Sim.Deliver (a harness that feeds
// the node's reactor directly): only correctly attributed, correctly signed votes are recorded.
func (m *Monitor) NoteDelivered(n *Node, v *types.Vote) {
	if v != nil {
		m.recordDelivered(n.ID, v)
	}
}

func (m *Monitor) OnDeliver(n *Node, pm *PoolMsg) {
	if vm, ok := pm.Msg.(*cs.VoteMessage); ok {
		m.recordDelivered(n.ID, vm.Vote)
	}
}

func (m *Monitor) OnEmit(n *Node, msg cs.ConsensusMessage) {
	switch v := msg.(type) {
	case *cs.ProposalMessage:
		m.count("proposals_emitted", 1)
		if v.Proposal.Round > 0 {
			m.count("proposals_round_gt0", 1)
		}
		if v.Proposal.POLRound >= 0 {
			m.count("proposals_with_pol", 1)
		}
	case *cs.BlockPartMessage:
		m.count("parts_emitted", 1)
	case *cs.VoteMessage:
		m.onOwnVote(n, v.Vote)
	}
}

// observeProposer compares node n's view of the proposer of its current (H,R) with the other nodes' views.
func (m *Monitor) observeProposer(n *Node, h uint64, r int) {
	rs := n.CS.GetRoundState()
	if rs.Height != h || rs.Round != r || rs.Validators == nil {
		return
	}
	if m.proposerAt == nil {
		m.proposerAt = map[[2]uint64]string{}
		m.proposerBy = map[[2]uint64]int{}
	}
	k := [2]uint64{h, uint64(r)}
	addr := string(rs.Validators.GetProposer().Address)
	m.count("proposer_views_observed", 1)
	if r > 0 {
		m.count("proposer_views_observed_round_gt0", 1)
	}
	if prev, ok := m.proposerAt[k]; ok {
		if m.proposerBy[k] != n.ID {
			m.count("proposer_views_compared", 1)
		}
		if prev != addr && len(m.ProposerMismatch) < 5 {
			m.ProposerMismatch = append(m.ProposerMismatch, Violation{"proposer/correct-nodes-disagree", fmt.Sprintf("at height %d round %d node v%d sees proposer %X but node v%d sees %X", h, r, m.proposerBy[k], prev, n.ID, addr)})
		}
		return
	}
	m.proposerAt[k] = addr
	m.proposerBy[k] = n.ID
}

func (m *Monitor) onOwnVote(n *Node, v *types.Vote) {
	if m.VoteHook != nil {
		defer m.VoteHook(n, v)
	}
	m.observeProposer(n, v.Height, v.Round)
	m.count("votes_checked", 1)
	if v.Round > m.maxRound {
		m.maxRound = v.Round
	}
	if v.Round > 0 {
		m.count("votes_round_gt0", 1)
	}
	total := m.s.TotalPower()
	k := hrt{v.Height, v.Round, v.Type}
	name := "prevote"
	if v.Type == types.VoteTypePrecommit {
		name = "precommit"
	}
	if m.own[n.ID] == nil {
		m.own[n.ID] = map[hrt]types.BlockID{}
	}
	if prev, ok := m.own[n.ID][k]; ok {
		if !prev.Equals(v.BlockID) {
			m.violate("discipline/double-"+name, "node v%d emitted two different %ss at %d/%d: %s and %s", n.ID, name, v.Height, v.Round, bkey(prev)[:6], bkey(v.BlockID)[:6])
		}
		return
	}
	m.own[n.ID][k] = v.BlockID
	m.recordDelivered(n.ID, v) // its own vote is part of what it has seen
	key := bkey(v.BlockID)
	if m.locks[n.ID] == nil {
		m.locks[n.ID] = map[uint64]lockInfo{}
	}
	lock, locked := m.locks[n.ID][v.Height]
	if v.Type == types.VoteTypePrecommit {
		if key != "nil" {
			m.count("precommits_nonnil", 1)
			// lock record: a non-nil precommit at round r IS the lock on that block at round r (first lock and
			// relock alike); the round recorded with the lock is what later decides which polkas may unlock it.
			// Read while the node is still at that height (its own precommit may have completed a commit).
			if rs := n.CS.GetRoundState(); rs.Height == v.Height && m.LockRecordCheck {
				m.count("lock_records_checked", 1)
				if rs.LockedRound > 0 || v.Round > 0 {
					m.count("lock_records_checked_round_gt0", 1)
				}
				if rs.LockedBlock == nil || !rs.LockedBlock.HashesTo(v.BlockID.Hash.Bytes()) || rs.LockedRound != v.Round {
					lb := "nil"
					if rs.LockedBlock != nil {
						lb = fmt.Sprintf("%x", rs.LockedBlock.Hash().Bytes()[:6])
					}
					m.violate("discipline/lock-not-recorded-at-precommit-round", "node v%d precommitted %s at %d/%d but its lock record says block %s round %d", n.ID, key[:6], v.Height, v.Round, lb, rs.LockedRound)
				}
			}
			t := m.tally(n.ID, hrt{v.Height, v.Round, types.VoteTypePrevote}, key)
			if 3*t <= 2*total {
				m.violate("discipline/precommit-without-polka", "node v%d precommitted %s at %d/%d with only %d of %d power of prevotes for it delivered", n.ID, key[:6], v.Height, v.Round, t, total)
			}
			if locked && lock.Key != key {
				m.count("relocks_on_other_block", 1)
			}
			m.locks[n.ID][v.Height] = lockInfo{key, v.Round}
			m.count("locks_taken", 1)
		} else {
			m.count("precommits_nil", 1)
		}
		return
	}
	// prevote
	if key == "nil" {
		m.count("prevotes_nil", 1)
		return
	}
	m.count("prevotes_nonnil", 1)
	if locked && lock.Key != key {
		// needs a proof-of-lock-change: > 2/3 prevotes for one value != lock at a round in (lock.Round, v.Round]
		ok := false
		for r := lock.Round + 1; r <= v.Round && !ok; r++ {
			for _, val := range m.polkaValues(n.ID, hrt{v.Height, r, types.VoteTypePrevote}) {
				if val != lock.Key {
					ok = true
					break
				}
			}
		}
		if ok {
			m.count("unlocks_observed", 1)
		} else {
			m.violate("discipline/prevote-against-lock", "node v%d, locked on %s at round %d, prevoted %s at %d/%d without a later proof-of-lock-change", n.ID, lock.Key[:6], lock.Round, key[:6], v.Height, v.Round)
		}
	} else if locked {
		m.count("prevotes_for_locked_block", 1)
	}
}

func (m *Monitor) OnCommit(ev CommitEvent) {
	m.count("commits", 1)
	if m.commits[ev.Height] == nil {
		m.commits[ev.Height] = map[int]common.Hash{}
	}
	for other, h := range m.commits[ev.Height] {
		if h != ev.Hash {
			m.violate("agreement/different-blocks", "height %d: node v%d committed %x, node v%d committed %x", ev.Height, other, h[:6], ev.Node, ev.Hash[:6])
		}
	}
	m.commits[ev.Height][ev.Node] = ev.Hash
	// independent justification tally
	total := m.s.TotalPower()
	var sum int64
	round := -1
	seen := map[int]bool{}
	if ev.Commit != nil {
		for i, pc := range ev.Commit.Precommits {
			if pc == nil {
				continue
			}
			if pc.Type != types.VoteTypePrecommit || pc.Height != ev.Height || pc.BlockID.Hash != ev.Hash {
				continue
			}
			if round == -1 {
				round = pc.Round
			}
			if pc.Round != round || pc.ValidatorIndex != i || seen[i] {
				continue
			}
			addr, val := m.s.ValSet.GetByIndex(i)
			if val == nil || string(addr) != string(pc.ValidatorAddress) {
				continue
			}
			if !val.PubKey.VerifyBytes(pc.SignBytes(m.s.ChainID), pc.Signature) {
				continue
			}
			seen[i] = true
			sum += val.VotingPower
		}
	}
	if 3*sum <= 2*total {
		m.violate("commit/unjustified", "node v%d committed %x at height %d with a seen-commit carrying only %d of %d correctly signed power", ev.Node, ev.Hash[:6], ev.Height, sum, total)
	}
	if round > 0 {
		m.count("commits_in_round_gt0", 1)
	}
	// two nodes holding commits of the same block from different rounds (each valid on its own): the next
	// height's proposal carries one of them, the other nodes check it against what they saw themselves
	if m.commitRounds[ev.Height] == nil {
		m.commitRounds[ev.Height] = map[int]bool{}
	}
	if round >= 0 && !m.commitRounds[ev.Height][round] {
		m.commitRounds[ev.Height][round] = true
		if len(m.commitRounds[ev.Height]) == 2 {
			m.count("heights_committed_in_different_rounds_by_different_nodes", 1)
		}
	}
}

var numRe = regexp.MustCompile(`0x[0-9a-fA-F]+|[0-9A-F]{8,}|\d+`)

// PanicClass normalises a panic message into a stable class.
func PanicClass(p interface{}) string {
	s := fmt.Sprintf("%v", p)
	if i := strings.Index(s, "\n"); i >= 0 {
		s = s[:i]
	}
	s = numRe.ReplaceAllString(s, "N")
	s = strings.Join(strings.Fields(s), "_")
	if len(s) > 70 {
		s = s[:70]
	}
	return s
}

func (m *Monitor) OnPanic(n *Node, p interface{}, stack, what string) {
	m.count("state_machine_panics", 1)
	m.violate("halt/"+PanicClass(p), "node v%d: consensus state machine panicked while handling %s: %v\n%s", n.ID, what, p, stack)
}
