package detsim

import (
	"fmt"
	"net"
	"sync"

	cs "github.com/lianxiangcloud/linkchain/consensus"
	cmn "github.com/lianxiangcloud/linkchain/libs/common"
	"github.com/lianxiangcloud/linkchain/libs/log"
	"github.com/lianxiangcloud/linkchain/libs/p2p"
	"github.com/lianxiangcloud/linkchain/types"
)

// StubPeer is an in-memory p2p.Peer: it records what the node sends to it.
type StubPeer struct {
	cmn.BaseService
	id   string
	mtx  sync.Mutex
	data map[string]interface{}
	Sent int
}

func NewStubPeer(id string) *StubPeer {
	p := &StubPeer{id: id, data: map[string]interface{}{}}
	p.BaseService = *cmn.NewBaseService(nil, "StubPeer", p)
	return p
}
func (p *StubPeer) ID() string                     { return p.id }
func (p *StubPeer) RemoteAddr() net.Addr           { return &net.TCPAddr{IP: net.IPv4(10, 0, 0, 1), Port: 1} }
func (p *StubPeer) NodeInfo() p2p.NodeInfo         { return p2p.NodeInfo{} }
func (p *StubPeer) IsOutbound() bool               { return false }
func (p *StubPeer) Status() p2p.ConnectionStatus   { return p2p.ConnectionStatus{} }
func (p *StubPeer) Send(ch byte, b []byte) bool    { p.Sent++; return true }
func (p *StubPeer) TrySend(ch byte, b []byte) bool { p.Sent++; return true }
func (p *StubPeer) Close() error                   { return nil }
func (p *StubPeer) Set(k string, v interface{})    { p.mtx.Lock(); p.data[k] = v; p.mtx.Unlock() }
func (p *StubPeer) Get(k string) interface{} {
	p.mtx.Lock()
	defer p.mtx.Unlock()
	return p.data[k]
}

// StubSwitch is an in-memory p2p.P2PManager that records peers stopped for error.
type StubSwitch struct {
	cmn.BaseService
	Stopped int
	// OnStopPeer, if set, is called when a reactor asks to stop a peer for error.
	OnStopPeer func()
}

func NewStubSwitch() *StubSwitch {
	s := &StubSwitch{}
	s.BaseService = *cmn.NewBaseService(nil, "StubSwitch", s)
	return s
}

type emptyPeerSet struct{}

func (emptyPeerSet) HasID(string) bool        { return false }
func (emptyPeerSet) HasIP(string) bool        { return false }
func (emptyPeerSet) GetByID(string) p2p.Peer  { return nil }
func (emptyPeerSet) GetByIP(string) p2p.Peer  { return nil }
func (emptyPeerSet) List() []p2p.Peer         { return nil }
func (emptyPeerSet) Size() int                { return 0 }
func closedChan() chan bool                   { c := make(chan bool); close(c); return c }
func (s *StubSwitch) GetByID(string) p2p.Peer { return nil }
func (s *StubSwitch) StopPeerForError(p2p.Peer, interface{}) {
	s.Stopped++
	if s.OnStopPeer != nil {
		s.OnStopPeer()
	}
}
func (s *StubSwitch) Reactor(string) p2p.Reactor                     { return nil }
func (s *StubSwitch) AddReactor(n string, r p2p.Reactor) p2p.Reactor { return r }
func (s *StubSwitch) Broadcast(byte, []byte) chan bool               { return closedChan() }
func (s *StubSwitch) BroadcastE(byte, string, []byte) chan bool      { return closedChan() }
func (s *StubSwitch) Peers() p2p.IPeerSet                            { return emptyPeerSet{} }
func (s *StubSwitch) LocalNodeInfo() p2p.NodeInfo                    { return p2p.NodeInfo{} }
func (s *StubSwitch) NumPeers() (int, int, int)                      { return 0, 0, 0 }
func (s *StubSwitch) MarkBadNode(p2p.NodeInfo)                       {}
func (s *StubSwitch) CloseAllConnection()                            {}

// ReactorHarness is a real ConsensusReactor in front of node n's state machine, driven synchronously.
type ReactorHarness struct {
	R    *cs.ConsensusReactor
	SW   *StubSwitch
	Peer *StubPeer
}

// AttachReactor creates the reactor for node n (fast-sync constructor so that Start() does not
// start the state machine's goroutines, then leaves fast-sync through the verif hook).
func (s *Sim) AttachReactor(n *Node) (*ReactorHarness, error) {
	sw := NewStubSwitch()
	r := cs.NewConsensusReactor(n.CS, true, sw)
	r.SetLogger(log.NewNopLogger())
	if err := r.Start(); err != nil {
		return nil, err
	}
	r.VerifLeaveFastSync()
	p := NewStubPeer("attacker")
	p.Set(types.PeerStateKey, cs.NewPeerState(p))
	return &ReactorHarness{R: r, SW: sw, Peer: p}, nil
}

// Receive feeds raw bytes to the reactor as the connection's recvRoutine would; a panic here is
// recovered per connection in production (the peer is dropped), so it is returned, not raised.
func (h *ReactorHarness) Receive(ch byte, b []byte) (p interface{}) {
	defer func() { p = recover() }()
	h.R.Receive(ch, h.Peer, b)
	return nil
}

func (h *ReactorHarness) String() string { return fmt.Sprintf("reactor(stopped=%d)", h.SW.Stopped) }

// RunFair delivers everything in FIFO order to everybody and fires armed timeouts only when
// nothing is deliverable: the fault-free continuation used for bounded-progress checks.
func (s *Sim) RunFair(maxSteps int, until func() bool) int {
	steps := 0
	for ; steps < maxSteps; steps++ {
		if until() {
			return steps
		}
		dl := s.deliverable()
		if len(dl) > 0 {
			s.Deliver(s.Pool[dl[0][0]], s.Nodes[dl[0][1]])
			continue
		}
		if s.CatchUpLagging() || s.Regossip() {
			continue
		}
		fired := false
		for _, n := range s.Nodes {
			if s.FireTimeout(n, false) {
				fired = true
				break
			}
		}
		if !fired {
			return steps
		}
		s.prune()
	}
	return steps
}

// CatchUpLagging models the reactor's catch-up gossip (gossipDataForCatchup / gossipVotesForHeight with
// LoadBlockCommit): a node whose consensus height h was already committed by a peer is sent that
// peer's stored commit (precommits) and the stored block parts. Returns true if something was sent.
func (s *Sim) CatchUpLagging() bool {
	for _, n := range s.Nodes {
		if n.Dead {
			continue
		}
		h := n.CS.GetRoundState().Height
		if n.caught == nil {
			n.caught = map[uint64]int{}
		}
		if n.caught[h] >= 2 {
			continue
		}
		for _, peer := range s.Nodes {
			if peer.ID == n.ID || peer.App.Height() < h {
				continue
			}
			blk, parts, commit := peer.App.Stored(h)
			if blk == nil || parts == nil || commit == nil {
				continue
			}
			sb := &storedBlock{blk, parts, commit}
			n.caught[h]++
			s.CatchUps++
			s.logf("catchup n%d height %d from n%d", n.ID, h, peer.ID)
			// queryMaj23Routine: the peer claims its +2/3 so that a conflicting vote of an equivocating
			// validator for that block is still tallied for it (VoteSet.SetPeerMaj23).
			if bid := sb.commit.BlockID; !bid.IsZero() {
				if rs := n.CS.GetRoundState(); rs.Votes != nil {
					rs.Votes.SetPeerMaj23(sb.commit.Round(), types.VoteTypePrecommit, fmt.Sprintf("peer%d", peer.ID), bid)
				}
			}
			for _, pc := range sb.commit.Precommits {
				if pc == nil || n.Dead {
					continue
				}
				pm := &PoolMsg{ID: -1, From: peer.ID, Msg: &cs.VoteMessage{Vote: pc}, Height: h, Round: pc.Round, Kind: "precommit"}
				if s.DropFilter != nil && s.DropFilter(pm, n) {
					continue // scripted loss covers the catch-up path as well
				}
				s.Mon.OnDeliver(n, pm)
				if p, stack := n.CS.VerifHandlePeerMsg(pm.Msg, fmt.Sprintf("peer%d", peer.ID)); p != nil {
					s.nodePanic(n, p, stack, "catch-up precommit")
				}
				s.drain(n)
			}
			for i := 0; i < sb.parts.Total() && !n.Dead; i++ {
				m := &cs.BlockPartMessage{Height: h, Round: sb.commit.Round(), Part: sb.parts.GetPart(i)}
				if p, stack := n.CS.VerifHandlePeerMsg(m, fmt.Sprintf("peer%d", peer.ID)); p != nil {
					s.nodePanic(n, p, stack, "catch-up part")
				}
				s.drain(n)
			}
			return true
		}
	}
	return false
}

// Regossip models gossipVotesRoutine/gossipDataRoutine re-sending what a peer lacks for the round
// it is in (the reactor's per-peer bit arrays are reset when the peer changes round, so a message
// that arrived too early and was dropped is sent again): every pool message of node n's current
// (height, round) is delivered to it again, at most twice per (node, height, round).
func (s *Sim) Regossip() bool {
	sent := false
	for _, n := range s.Nodes {
		if n.Dead {
			continue
		}
		rs := n.CS.GetRoundState()
		k := [2]uint64{rs.Height, uint64(rs.Round)}
		if n.regossiped == nil {
			n.regossiped = map[[2]uint64]int{}
		}
		if n.regossiped[k] >= 2 {
			continue
		}
		n.regossiped[k]++
		for _, pm := range append([]*PoolMsg{}, s.Pool...) {
			if n.Dead || pm.From == n.ID || pm.Height != rs.Height || pm.Round != rs.Round {
				continue
			}
			if pm.Only != nil && !pm.Only[n.ID] {
				continue
			}
			s.Regossips++
			sent = true
			s.Deliver(pm, n)
		}
	}
	return sent
}
