package detsim

import (
	"bytes"
	"io/ioutil"
	"time"

	cs "github.com/lianxiangcloud/linkchain/consensus"
	"github.com/lianxiangcloud/linkchain/libs/ser"
	"github.com/lianxiangcloud/linkchain/types"
)

// Held-block monitor (C12, consensus side): whenever a correct node holds a block next to a COMPLETE part
// set (proposal / locked / valid pair of its RoundState), the identity the node uses for that block
// (Block.Hash(), what it signs and compares votes with) must be the identity of the block those parts
// encode, and - when the part set's header was announced by a proposer the simulator knows - the bytes of
// the part set must be that proposer's encoding. Checked after every delivery and timeout on the node.

// NoteProposalBytes registers the proposer's encoding for a part-set header (truth for the held-block monitor).
func (m *Monitor) NoteProposalBytes(h types.PartSetHeader, bz []byte) {
	if m.proposalBytes == nil {
		m.proposalBytes = map[string][]byte{}
	}
	m.proposalBytes[string(h.Hash)] = bz
}

func (m *Monitor) checkHeld(n *Node) {
	if !m.HeldCheck || n.Dead {
		return
	}
	rs := n.CS.GetRoundState()
	m.heldPair(n, "proposal", rs.ProposalBlock, rs.ProposalBlockParts)
	m.heldPair(n, "locked", rs.LockedBlock, rs.LockedBlockParts)
	m.heldPair(n, "valid", rs.ValidBlock, rs.ValidBlockParts)
	// the lock: a node locks the block it precommits. Block.Hash() covers the header only, so "the block with that
	// hash" is not enough: the locked block's part set must be the one named in the node's own precommit of the
	// lock round (otherwise it re-proposes / prevotes, under its lock, bytes nobody else voted for).
	if rs.LockedBlock != nil && rs.LockedBlockParts != nil && rs.Votes != nil && rs.LockedRound >= 0 {
		if pcs := rs.Votes.Precommits(rs.LockedRound); pcs != nil {
			if v := pcs.GetByAddress(n.Key.Priv.PubKey().Address()); v != nil && !v.BlockID.IsZero() {
				m.count("locks_compared_with_own_precommit", 1)
				if !rs.LockedBlockParts.HasHeader(v.BlockID.PartsHeader) || !rs.LockedBlock.HashesTo(v.BlockID.Hash.Bytes()) {
					m.violate("held-block/locked/not-the-block-of-the-own-precommit",
						"n%d at %d/%d: locked in round %d on block %x with part set %d:%x, but its precommit of that round names %x with part set %d:%x",
						n.ID, rs.Height, rs.Round, rs.LockedRound, rs.LockedBlock.Hash().Bytes()[:6], rs.LockedBlockParts.Total(), []byte(rs.LockedBlockParts.Header().Hash)[:6],
						v.BlockID.Hash.Bytes()[:6], v.BlockID.PartsHeader.Total, []byte(v.BlockID.PartsHeader.Hash)[:6])
				}
			}
		}
	}
}

func (m *Monitor) heldPair(n *Node, what string, b *types.Block, ps *types.PartSet) {
	if b == nil {
		return
	}
	if ps == nil || !ps.IsComplete() {
		m.count("held_block_without_complete_parts/"+what, 1)
		return
	}
	bz, err := ioutil.ReadAll(ps.GetReader())
	if err != nil {
		m.violate("held-block/"+what+"/parts-unreadable", "n%d: %v", n.ID, err)
		return
	}
	var fresh *types.Block
	if err := ser.DecodeBytes(bz, &fresh); err != nil || fresh == nil {
		m.violate("held-block/"+what+"/complete-parts-do-not-decode", "n%d holds block %x but its %d complete parts do not decode: %v", n.ID, b.Hash().Bytes()[:6], ps.Total(), err)
		return
	}
	m.count("held_pairs_checked", 1)
	if fresh.Hash() != b.Hash() {
		m.violate("held-block/"+what+"/identity-differs-from-parts",
			"n%d at %d/%d: the %s block answers Hash()=%x but the complete part set held next to it (header %d:%x) encodes block %x",
			n.ID, n.CS.GetRoundState().Height, n.CS.GetRoundState().Round, what, b.Hash().Bytes()[:8], ps.Total(), []byte(ps.Header().Hash)[:6], fresh.Hash().Bytes()[:8])
		return
	}
	if want, ok := m.proposalBytes[string(ps.Header().Hash)]; ok {
		m.count("held_pairs_compared_with_proposer_bytes", 1)
		if !bytes.Equal(want, bz) {
			m.violate("held-block/"+what+"/bytes-differ-from-proposer", "n%d: completed part set %d:%x yields %d bytes, the proposer encoded %d", n.ID, ps.Total(), []byte(ps.Header().Hash)[:6], len(bz), len(want))
		}
	}
}

// ByzProposal is a signed proposal of a Byzantine validator with its block and parts.
type ByzProposal struct {
	Msg     *cs.ProposalMessage
	Block   *types.Block
	Parts   *types.PartSet
	BlockID types.BlockID
	Bytes   []byte
}

// MakeByzProposal lets Byzantine validator id sign a proposal for (h,r) over a block created by ref's
// application (variant makes distinct blocks). Nothing is posted.
func (s *Sim) MakeByzProposal(id int, ref *Node, h uint64, r int, variant int, polRound int, polID types.BlockID) *ByzProposal {
	block, _, p := ref.CS.VerifCreateProposalBlock()
	if p != nil || block == nil {
		return nil
	}
	block.Header.Time += uint64(9000000 + 10*s.Steps + variant)
	parts := block.MakePartSet(s.GenDoc.ConsensusParams.BlockGossip.BlockPartSizeBytes)
	pr := types.NewProposal(h, r, parts.Header(), polRound, polID)
	pr.Timestamp = time.Unix(1569409200+int64(s.Steps), 0).UTC()
	pr.Type = types.ProposalTypeNormal
	sig, _ := s.Vals[id].Priv.Sign(pr.SignBytes(s.ChainID))
	pr.Signature = sig
	bid := types.BlockID{Hash: block.Hash(), PartsHeader: parts.Header()}
	bz, _ := ioutil.ReadAll(parts.GetReader())
	s.Mon.noteProposal(h, bid)
	s.Mon.NoteProposalBytes(parts.Header(), bz)
	return &ByzProposal{Msg: &cs.ProposalMessage{Proposal: pr}, Block: block, Parts: parts, BlockID: bid, Bytes: bz}
}

// MakeByzProposalOverBytes lets Byzantine validator id sign a proposal for (h,r) whose part set carries exactly
// bz (the proposer chooses the bytes: e.g. a block's encoding followed by further bytes). block is the block the
// bytes are meant to decode to (its hash goes into the BlockID the simulator knows the proposal by).
func (s *Sim) MakeByzProposalOverBytes(id int, h uint64, r int, bz []byte, block *types.Block) *ByzProposal {
	parts := types.NewPartSetFromData(bz, s.GenDoc.ConsensusParams.BlockGossip.BlockPartSizeBytes)
	pr := types.NewProposal(h, r, parts.Header(), -1, types.BlockID{})
	pr.Timestamp = time.Unix(1569409200+int64(s.Steps), 0).UTC()
	pr.Type = types.ProposalTypeNormal
	sig, _ := s.Vals[id].Priv.Sign(pr.SignBytes(s.ChainID))
	pr.Signature = sig
	bid := types.BlockID{Hash: block.Hash(), PartsHeader: parts.Header()}
	s.Mon.noteProposal(h, bid)
	s.Mon.NoteProposalBytes(parts.Header(), bz)
	return &ByzProposal{Msg: &cs.ProposalMessage{Proposal: pr}, Block: block, Parts: parts, BlockID: bid, Bytes: bz}
}

// Post publishes a message of validator `from`, deliverable only to `only` (nil: everybody).
func (s *Sim) Post(from int, m cs.ConsensusMessage, only map[int]bool) *PoolMsg {
	return s.post(from, m, only, true)
}
