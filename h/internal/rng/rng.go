// Package rng is the single source of randomness of the harness: a splittable
// SplitMix64/xoshiro-style generator derived from VERIF_SEED, so every case has
// its own reproducible stream.
package rng

import (
	"encoding/binary"
	"hash/fnv"
)

type R struct{ s uint64 }

func New(seed uint64) *R { return &R{s: seed*0x9E3779B97F4A7C15 + 0x1234567} }

// Derive returns an independent generator for (seed, labels...).
func Derive(seed uint64, labels ...interface{}) *R {
	h := fnv.New64a()
	var b [8]byte
	binary.LittleEndian.PutUint64(b[:], seed)
	h.Write(b[:])
	for _, l := range labels {
		switch v := l.(type) {
		case string:
			h.Write([]byte(v))
		case int:
			binary.LittleEndian.PutUint64(b[:], uint64(v))
			h.Write(b[:])
		case uint64:
			binary.LittleEndian.PutUint64(b[:], v)
			h.Write(b[:])
		}
		h.Write([]byte{0xff})
	}
	return New(h.Sum64())
}

func (r *R) Uint64() uint64 {
	r.s += 0x9E3779B97F4A7C15
	z := r.s
	z = (z ^ (z >> 30)) * 0xBF58476D1CE4E5B9
	z = (z ^ (z >> 27)) * 0x94D049BB133111EB
	return z ^ (z >> 31)
}
func (r *R) Intn(n int) int {
	if n <= 0 {
		return 0
	}
	return int(r.Uint64() % uint64(n))
}
func (r *R) Int63() int64          { return int64(r.Uint64() >> 1) }
func (r *R) Bool() bool            { return r.Uint64()&1 == 1 }
func (r *R) Chance(p float64) bool { return float64(r.Uint64()>>11)/float64(1<<53) < p }
func (r *R) Range(lo, hi int) int { // inclusive
	if hi <= lo {
		return lo
	}
	return lo + r.Intn(hi-lo+1)
}
func (r *R) Bytes(n int) []byte {
	b := make([]byte, n)
	for i := 0; i < n; i += 8 {
		v := r.Uint64()
		for j := 0; j < 8 && i+j < n; j++ {
			b[i+j] = byte(v >> (8 * uint(j)))
		}
	}
	return b
}
func (r *R) Perm(n int) []int {
	p := make([]int, n)
	for i := range p {
		p[i] = i
	}
	for i := n - 1; i > 0; i-- {
		j := r.Intn(i + 1)
		p[i], p[j] = p[j], p[i]
	}
	return p
}
func (r *R) Pick(n int) int { return r.Intn(n) }

// Split returns a child generator and advances r.
func (r *R) Split() *R { return New(r.Uint64()) }
