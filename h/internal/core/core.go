// Package core is the runner shared by all checks: case contexts, the
// child-process protocol, evidence files, replays and known findings.
package core

import (
	"bufio"
	"encoding/json"
	"fmt"
	"io/ioutil"
	"os"
	"os/exec"
	"path/filepath"
	"regexp"
	"runtime"
	"runtime/debug"
	"sort"
	"strconv"
	"strings"
	"sync"
	"syscall"
	"time"

	"github.com/lianxiangcloud/linkchain/libs/log"

	"verif/h/internal/rng"
)

const VerifDir = "/verif"

type Violation struct {
	Key     string      `json:"key"`
	Detail  string      `json:"detail"`
	Witness interface{} `json:"witness,omitempty"`
}

type CaseResult struct {
	Index        int              `json:"index"`
	Counters     map[string]int64 `json:"counters,omitempty"`
	Fingerprints []string         `json:"fp,omitempty"`
	Sample       interface{}      `json:"sample,omitempty"`
	Violations   []Violation      `json:"violations,omitempty"`
	Inconclusive string           `json:"inconclusive,omitempty"`
	Panic        string           `json:"panic,omitempty"`
}

type Ctx struct {
	ID      string
	Tier    string
	Seed    uint64
	Index   int
	Rng     *rng.R
	Scratch string
	Verbose bool
	res     *CaseResult
	mu      sync.Mutex
}

func (c *Ctx) Count(name string, n int64) {
	c.mu.Lock()
	c.res.Counters[name] += n
	c.mu.Unlock()
}
func (c *Ctx) Max(name string, n int64) {
	c.mu.Lock()
	if c.res.Counters["max:"+name] < n {
		c.res.Counters["max:"+name] = n
	}
	c.mu.Unlock()
}

// Nontrivial marks a distinct non-trivial case/unit by its fingerprint.
func (c *Ctx) Nontrivial(fp string) {
	c.mu.Lock()
	if len(c.res.Fingerprints) < 4096 {
		c.res.Fingerprints = append(c.res.Fingerprints, fp)
	}
	c.mu.Unlock()
}
func (c *Ctx) Sample(v interface{}) {
	c.mu.Lock()
	if c.res.Sample == nil {
		c.res.Sample = v
	}
	c.mu.Unlock()
}
func (c *Ctx) Violation(key, detail string, witness interface{}) {
	c.mu.Lock()
	if len(c.res.Violations) < 20 {
		c.res.Violations = append(c.res.Violations, Violation{Key: key, Detail: detail, Witness: witness})
	}
	c.mu.Unlock()
	if c.Verbose {
		fmt.Printf("  violation key=%s %s\n", key, detail)
	}
}
func (c *Ctx) Violated() bool {
	c.mu.Lock()
	defer c.mu.Unlock()
	return len(c.res.Violations) > 0
}
func (c *Ctx) Inconclusive(reason string) {
	c.mu.Lock()
	c.res.Inconclusive = reason
	c.mu.Unlock()
}
func (c *Ctx) Logf(format string, a ...interface{}) {
	if c.Verbose {
		fmt.Printf("  "+format+"\n", a...)
	}
}

type Check struct {
	ID          string
	Level       string // exploration | fault_enumeration
	Technique   string
	Rule        string
	Assumptions []string
	Race        bool // children run the -race binary and race reports are violations
	Asan        bool
	// Cases returns how many cases the tier runs.
	Cases func(tier string) int
	// Batch returns how many cases one child process runs (0 = auto).
	Batch func(tier string) int
	// Run executes one case.
	Run func(c *Ctx)
	// Floors returns observation floors: counters that must reach the value, else inconclusive.
	Floors func(tier string) map[string]int64
	// PanicIsViolation: an unrecovered panic / fatal error / unexpected child death is a
	// violation of the property (C11, C16, C20 ...) rather than an inconclusive run.
	PanicIsViolation bool
	// Init runs once per child process before the first case.
	Init func()
	// Parallel caps the number of concurrent children (0 = NumCPU).
	Parallel int
	// BatchTimeout is the wall-clock watchdog per child (inconclusive when it fires).
	BatchTimeout time.Duration
	// ChildEnv adds environment variables for children.
	ChildEnv []string
	// RaceAllow lists substrings of race reports that are harness artefacts (with reason).
	RaceAllow map[string]string
	// MemLimitMB caps the child's address space (RLIMIT_AS) so that an allocation bomb is an
	// observed process death instead of an OOM of the sandbox (not for race binaries).
	MemLimitMB int
	// Also lists further registered check ids (lanes) that decide the same property; `vcheck <ID>`
	// runs them after the main lane and merges everything into one evidence file and exit code.
	Also []string
	// Extra lets a check add keys to coverage after aggregation.
	Extra func(tier string, counters map[string]int64) map[string]interface{}
}

var registry = map[string]*Check{}

func Register(c *Check)    { registry[c.ID] = c }
func Get(id string) *Check { return registry[id] }
func IDs() []string {
	var ids []string
	for id := range registry {
		ids = append(ids, id)
	}
	sort.Strings(ids)
	return ids
}

func CaseSeed(seed uint64, id, tier string, index int) *rng.R {
	return rng.Derive(seed, id, index) // tier deliberately not mixed in: thorough ⊇ quick prefixes
}

// RunCase runs one case in-process, recovering panics.
func RunCase(chk *Check, tier string, seed uint64, index int, scratch string, verbose bool) (res *CaseResult) {
	res = &CaseResult{Index: index, Counters: map[string]int64{}}
	c := &Ctx{ID: chk.ID, Tier: tier, Seed: seed, Index: index, Rng: CaseSeed(seed, chk.ID, tier, index), Scratch: scratch, Verbose: verbose, res: res}
	defer func() {
		if r := recover(); r != nil {
			res.Panic = fmt.Sprintf("%v\n%s", r, trimStack(debug.Stack()))
		}
	}()
	chk.Run(c)
	return res
}

func trimStack(b []byte) string {
	s := string(b)
	if len(s) > 6000 {
		s = s[:6000]
	}
	return s
}

// ---------------------------------------------------------------- child

// ChildMain runs cases [from,to) and streams results to out.
func ChildMain(id, tier string, seed uint64, from, to int, out string) int {
	chk := Get(id)
	if chk == nil {
		fmt.Fprintln(os.Stderr, "unknown check", id)
		return 2
	}
	f, err := os.OpenFile(out, os.O_CREATE|os.O_WRONLY|os.O_APPEND, 0644)
	if err != nil {
		fmt.Fprintln(os.Stderr, err)
		return 2
	}
	defer f.Close()
	if chk.MemLimitMB > 0 && !chk.Race {
		lim := uint64(chk.MemLimitMB) << 20
		syscall.Setrlimit(syscall.RLIMIT_AS, &syscall.Rlimit{Cur: lim, Max: lim})
	}
	if chk.Init != nil {
		chk.Init()
	}
	scratch := filepath.Dir(out)
	for i := from; i < to; i++ {
		fmt.Fprintf(f, "B %d\n", i)
		cs := filepath.Join(scratch, fmt.Sprintf("case-%d", i))
		os.MkdirAll(cs, 0755)
		res := RunCase(chk, tier, seed, i, cs, false)
		os.RemoveAll(cs)
		b, err := json.Marshal(res)
		if err != nil {
			res.Sample = nil
			for j := range res.Violations {
				res.Violations[j].Witness = fmt.Sprintf("%v", res.Violations[j].Witness)
			}
			b, _ = json.Marshal(res)
		}
		fmt.Fprintf(f, "E %s\n", b)
	}
	fmt.Fprintf(f, "DONE\n")
	return 0
}

// ---------------------------------------------------------------- parent

type finding struct {
	Property, Key, Text string
}

func loadFindings() []finding {
	var out []finding
	b, err := ioutil.ReadFile(filepath.Join(VerifDir, "known_findings.txt"))
	if err != nil {
		return nil
	}
	re := regexp.MustCompile(`^finding:\s+property=(\S+)\s+key=(\S+)\s+(.*)$`)
	for _, l := range strings.Split(string(b), "\n") {
		m := re.FindStringSubmatch(strings.TrimSpace(l))
		if m != nil {
			out = append(out, finding{m[1], m[2], m[3]})
		}
	}
	return out
}

type batchOutcome struct {
	results []*CaseResult
	crashes []crash
	timeout bool
	races   []string
}
type crash struct {
	Index  int
	Reason string
	Tail   string
}

func exePath(chk *Check) string {
	if chk.Race {
		if p := os.Getenv("VCHECK_RACE_BIN"); p != "" {
			return p
		}
	}
	if chk.Asan {
		if p := os.Getenv("VCHECK_ASAN_BIN"); p != "" {
			return p
		}
	}
	p, _ := os.Executable()
	return p
}

func runBatch(chk *Check, tier string, seed uint64, from, to int, dir string) batchOutcome {
	var bo batchOutcome
	os.MkdirAll(dir, 0755)
	defer os.RemoveAll(dir)
	timeout := chk.BatchTimeout
	if timeout == 0 {
		timeout = 20 * time.Minute
	}
	if tier == "thorough" {
		timeout *= 3
	}
	start := from
	for start < to {
		out := filepath.Join(dir, fmt.Sprintf("out-%d", start))
		errf := filepath.Join(dir, fmt.Sprintf("err-%d", start))
		cmd := exec.Command(exePath(chk), "--child", chk.ID, tier, strconv.FormatUint(seed, 10), strconv.Itoa(start), strconv.Itoa(to), out)
		ef, _ := os.Create(errf)
		cmd.Stdout = ef
		cmd.Stderr = ef
		cmd.Env = append(os.Environ(), chk.ChildEnv...)
		if chk.Race {
			cmd.Env = append(cmd.Env, "GORACE=halt_on_error=0 exitcode=0 log_path="+filepath.Join(dir, "race")+" history_size=5")
		}
		cmd.SysProcAttr = &syscall.SysProcAttr{Setpgid: true, Pdeathsig: syscall.SIGKILL} // children never outlive the parent
		if err := cmd.Start(); err != nil {
			bo.crashes = append(bo.crashes, crash{start, "spawn: " + err.Error(), ""})
			ef.Close()
			return bo
		}
		done := make(chan error, 1)
		go func() { done <- cmd.Wait() }()
		var werr error
		timedOut := false
		select {
		case werr = <-done:
		case <-time.After(timeout):
			timedOut = true
			syscall.Kill(-cmd.Process.Pid, syscall.SIGQUIT)
			select {
			case <-done:
			case <-time.After(10 * time.Second):
				syscall.Kill(-cmd.Process.Pid, syscall.SIGKILL)
				<-done
			}
		}
		ef.Close()
		// parse output
		cur := -1
		finished := false
		if f, err := os.Open(out); err == nil {
			sc := bufio.NewScanner(f)
			sc.Buffer(make([]byte, 1<<20), 1<<28)
			for sc.Scan() {
				l := sc.Text()
				switch {
				case strings.HasPrefix(l, "B "):
					cur, _ = strconv.Atoi(l[2:])
				case strings.HasPrefix(l, "E "):
					var r CaseResult
					if json.Unmarshal([]byte(l[2:]), &r) == nil {
						bo.results = append(bo.results, &r)
						cur = -1
					}
				case l == "DONE":
					finished = true
				}
			}
			f.Close()
		}
		if finished && werr == nil {
			break
		}
		tail := tailFile(errf, 6000)
		if timedOut {
			bo.timeout = true
			bo.crashes = append(bo.crashes, crash{cur, "watchdog", tail})
			if cur < 0 {
				break
			}
			start = cur + 1
			continue
		}
		reason := "child exited"
		if werr != nil {
			reason = werr.Error()
		}
		if cur < 0 {
			// died outside a case (init or after the last case)
			bo.crashes = append(bo.crashes, crash{-1, reason, tail})
			break
		}
		bo.crashes = append(bo.crashes, crash{cur, reason, tail})
		start = cur + 1
	}
	if chk.Race {
		matches, _ := filepath.Glob(filepath.Join(dir, "race.*"))
		for _, m := range matches {
			b, _ := ioutil.ReadFile(m)
			bo.races = append(bo.races, splitRaceReports(string(b))...)
		}
	}
	return bo
}

func tailFile(path string, n int) string {
	b, err := ioutil.ReadFile(path)
	if err != nil {
		return ""
	}
	// prefer the beginning of a panic / fatal error if present
	s := string(b)
	for _, marker := range []string{"fatal error:", "panic:", "SIGQUIT", "ERROR: AddressSanitizer"} {
		if i := strings.Index(s, marker); i >= 0 {
			s = s[i:]
			if len(s) > n {
				s = s[:n]
			}
			return s
		}
	}
	if len(s) > n {
		s = s[len(s)-n:]
	}
	return s
}

func splitRaceReports(s string) []string {
	var out []string
	parts := strings.Split(s, "==================")
	for _, p := range parts {
		if strings.Contains(p, "WARNING: DATA RACE") {
			out = append(out, strings.TrimSpace(p))
		}
	}
	return out
}

var frameRe = regexp.MustCompile(`(?m)^\s+(\S+)\(.*\)\n\s+(\S+):(\d+)`)

// raceKey: the two top repo frames of the two accesses, line numbers stripped.
func raceKey(report string) string {
	secs := regexp.MustCompile(`(?m)^(Write|Read|Previous write|Previous read|Previous atomic write|Atomic write|Atomic read)[^\n]*\n`).Split(report, -1)
	var tops []string
	for _, sec := range secs[1:] {
		top := ""
		for _, m := range frameRe.FindAllStringSubmatch(sec, -1) {
			fn := m[1]
			if strings.Contains(m[2], "/repo/") || strings.Contains(fn, "lianxiangcloud/linkchain") {
				top = fn
				break
			}
		}
		if top == "" {
			if m := frameRe.FindStringSubmatch(sec); m != nil {
				top = m[1]
			}
		}
		tops = append(tops, top)
		if len(tops) == 2 {
			break
		}
	}
	sort.Strings(tops)
	return "race/" + strings.Join(tops, "|")
}

var panicLineRe = regexp.MustCompile(`(?m)^(panic:|fatal error:)\s*(.*)$`)

var asanRe = regexp.MustCompile(`ERROR: AddressSanitizer: ([a-zA-Z0-9-]+)`)

func crashKey(tail string) string {
	if m := asanRe.FindStringSubmatch(tail); m != nil {
		// first C or Go frame of the report
		fr := "unknown"
		if f := regexp.MustCompile(`(?m)^\s+#0 0x[0-9a-f]+ in ([^\s]+)`).FindStringSubmatch(tail); f != nil {
			fr = f[1]
		}
		return "asan/" + m[1] + "/" + fr
	}
	m := panicLineRe.FindStringSubmatch(tail)
	msg := "unknown"
	if m != nil {
		msg = m[2]
	}
	msg = regexp.MustCompile(`0x[0-9a-fA-F]+|\d+`).ReplaceAllString(msg, "N")
	if len(msg) > 80 {
		msg = msg[:80]
	}
	msg = strings.Join(strings.Fields(msg), "_")
	// first repo frame
	fr := ""
	for _, mm := range regexp.MustCompile(`(?m)^(github\.com/lianxiangcloud/linkchain/[^\s(]+)\(`).FindAllStringSubmatch(tail, -1) {
		fr = mm[1]
		break
	}
	fr = strings.TrimPrefix(fr, "github.com/lianxiangcloud/linkchain/")
	return "crash/" + fr + "/" + msg
}

type Evidence struct {
	PropertyID  string                 `json:"property_id"`
	Tier        string                 `json:"tier"`
	Seed        int64                  `json:"seed"`
	Level       string                 `json:"level"`
	Coverage    map[string]interface{} `json:"coverage"`
	Assumptions []string               `json:"assumptions"`
	WallS       float64                `json:"wall_s"`
	Violations  int                    `json:"violations"`
	Known       []string               `json:"known_findings_matched"`
	Inconcl     []string               `json:"inconclusive"`
	Verdict     string                 `json:"verdict"`
}

// ParentMain runs a whole check and returns the process exit code.
func ParentMain(id, tier string, seed uint64) int {
	chk := Get(id)
	if chk == nil {
		fmt.Fprintln(os.Stderr, "unknown check", id)
		return 2
	}
	ev, code := runParent(id, id, tier, seed)
	// composite checks: further lanes registered under their own ids decide the same property
	for _, sub := range chk.Also {
		if Get(sub) == nil {
			fmt.Fprintln(os.Stderr, "unknown sub-check", sub)
			return 2
		}
		sev, scode := runParent(sub, id, tier, seed)
		ev = mergeEvidence(ev, sev, sub)
		if scode == 1 || (scode == 3 && code == 0) || (scode == 2 && code == 0) {
			code = scode
		}
	}
	if len(chk.Also) > 0 {
		switch code {
		case 0:
			ev.Verdict = "held"
		case 1:
			ev.Verdict = "violated"
		default:
			ev.Verdict = "inconclusive"
		}
	}
	edir := evidenceDir()
	os.MkdirAll(edir, 0755)
	b, _ := json.MarshalIndent(ev, "", " ")
	ioutil.WriteFile(filepath.Join(edir, id+".json"), b, 0644)
	return code
}

// evidenceDir: only the registered binary (vcheck, built by run.sh from /repo's working tree) writes to
// /verif/evidence; development binaries and binaries built against scratch worktrees (vcheck.seed-*) write
// to build/dev-evidence so that they can never overwrite committed evidence. VERIF_EVIDENCE_DIR overrides.
func evidenceDir() string {
	if d := os.Getenv("VERIF_EVIDENCE_DIR"); d != "" {
		return d
	}
	if filepath.Base(os.Args[0]) == "vcheck" {
		return filepath.Join(VerifDir, "evidence")
	}
	return filepath.Join(VerifDir, "build", "dev-evidence")
}

func mergeEvidence(a, b Evidence, sub string) Evidence {
	ai, _ := a.Coverage["evaluations"].(int)
	bi, _ := b.Coverage["evaluations"].(int)
	a.Coverage["evaluations"] = ai + bi
	ad, _ := a.Coverage["distinct_nontrivial"].(int)
	bd, _ := b.Coverage["distinct_nontrivial"].(int)
	a.Coverage["distinct_nontrivial"] = ad + bd
	a.Coverage["rule"] = fmt.Sprintf("%v || lane %s: %v", a.Coverage["rule"], sub, b.Coverage["rule"])
	as, _ := a.Coverage["samples"].([]interface{})
	bs, _ := b.Coverage["samples"].([]interface{})
	a.Coverage["samples"] = append(as, bs...)
	a.Coverage["lane_"+sub] = map[string]interface{}{"evaluations": bi, "distinct_nontrivial": bd, "observed": b.Coverage["observed"], "level": b.Level}
	a.Assumptions = append(a.Assumptions, b.Assumptions...)
	a.WallS += b.WallS
	a.Violations += b.Violations
	a.Known = append(a.Known, b.Known...)
	a.Inconcl = append(a.Inconcl, b.Inconcl...)
	return a
}

// runParent runs one registered check id and reports under property id propID.
func runParent(id, propID, tier string, seed uint64) (Evidence, int) {
	chk := Get(id)
	t0 := time.Now()
	n := chk.Cases(tier)
	bsz := 0
	if chk.Batch != nil {
		bsz = chk.Batch(tier)
	}
	par := chk.Parallel
	if par <= 0 {
		par = runtime.NumCPU()
	}
	if bsz <= 0 {
		bsz = (n + par*2 - 1) / (par * 2)
		if bsz < 1 {
			bsz = 1
		}
	}
	scratchRoot := filepath.Join(VerifDir, "build", "scratch", fmt.Sprintf("%s-%d", id, os.Getpid()))
	os.MkdirAll(scratchRoot, 0755)
	defer os.RemoveAll(scratchRoot)

	type job struct{ from, to int }
	jobs := make(chan job, 1024)
	var mu sync.Mutex
	var all []*CaseResult
	var crashes []crash
	var races []string
	timeouts := 0
	var wg sync.WaitGroup
	for w := 0; w < par; w++ {
		wg.Add(1)
		go func() {
			defer wg.Done()
			for j := range jobs {
				bo := runBatch(chk, tier, seed, j.from, j.to, filepath.Join(scratchRoot, fmt.Sprintf("b%d", j.from)))
				mu.Lock()
				all = append(all, bo.results...)
				crashes = append(crashes, bo.crashes...)
				races = append(races, bo.races...)
				if bo.timeout {
					timeouts++
				}
				mu.Unlock()
			}
		}()
	}
	for from := 0; from < n; from += bsz {
		to := from + bsz
		if to > n {
			to = n
		}
		jobs <- job{from, to}
	}
	close(jobs)
	wg.Wait()

	sort.Slice(all, func(i, j int) bool { return all[i].Index < all[j].Index })
	counters := map[string]int64{}
	fps := map[string]bool{}
	var samples []interface{}
	var inconcl []string
	type vrec struct {
		Index int
		V     Violation
	}
	var viols []vrec
	extraUnits := 0
	for _, r := range all {
		for k, v := range r.Counters {
			if strings.HasPrefix(k, "max:") {
				if counters[k] < v {
					counters[k] = v
				}
			} else {
				counters[k] += v
			}
		}
		for _, fp := range r.Fingerprints {
			fps[fp] = true
		}
		// a case may evaluate several units (and fingerprint each): evaluations counts units, never fewer than cases
		if len(r.Fingerprints) > 1 {
			extraUnits += len(r.Fingerprints) - 1
		}
		if r.Sample != nil && len(samples) < 4 {
			samples = append(samples, r.Sample)
		}
		for _, v := range r.Violations {
			viols = append(viols, vrec{r.Index, v})
		}
		if r.Panic != "" {
			key := crashKey(r.Panic)
			if chk.PanicIsViolation {
				viols = append(viols, vrec{r.Index, Violation{Key: key, Detail: "unrecovered panic in case", Witness: r.Panic}})
			} else {
				inconcl = append(inconcl, fmt.Sprintf("case %d panicked (%s): %s", r.Index, key, firstLine(r.Panic)))
			}
		}
		if r.Inconclusive != "" {
			inconcl = append(inconcl, fmt.Sprintf("case %d: %s", r.Index, r.Inconclusive))
		}
	}
	for _, c := range crashes {
		key := crashKey(c.Tail)
		if c.Reason == "watchdog" {
			inconcl = append(inconcl, fmt.Sprintf("watchdog fired in case %d", c.Index))
			continue
		}
		// the runtime's own detection of unsynchronised map access is a race witness wherever it happens
		mapRace := strings.Contains(c.Tail, "fatal error: concurrent map")
		if (chk.PanicIsViolation || mapRace) && c.Index >= 0 {
			viols = append(viols, vrec{c.Index, Violation{Key: key, Detail: "child process died in case: " + c.Reason, Witness: c.Tail}})
		} else {
			inconcl = append(inconcl, fmt.Sprintf("child died in case %d (%s, %s): %s", c.Index, c.Reason, key, firstLine(c.Tail)))
		}
	}
	raceKeys := map[string]string{}
	for _, r := range races {
		allowed := false
		for sub := range chk.RaceAllow {
			if strings.Contains(r, sub) {
				allowed = true
				counters["race_reports_allowlisted"]++
				break
			}
		}
		if allowed {
			continue
		}
		k := raceKey(r)
		if _, ok := raceKeys[k]; !ok {
			raceKeys[k] = r
		}
		counters["race_reports"]++
	}
	for k, r := range raceKeys {
		viols = append(viols, vrec{-1, Violation{Key: k, Detail: "data race reported by the race detector", Witness: r}})
	}
	if chk.Race {
		counters["race_reports_distinct"] = int64(len(raceKeys))
	}
	evaluated := len(all)
	// a case that killed its child has no result line but was evaluated (and judged above) all the same
	died := map[int]bool{}
	for _, c := range crashes {
		if c.Index >= 0 && c.Reason != "watchdog" && chk.PanicIsViolation {
			died[c.Index] = true
		}
	}
	evaluated += len(died)
	if evaluated < n && len(inconcl) == 0 {
		inconcl = append(inconcl, fmt.Sprintf("only %d of %d cases produced a result", evaluated, n))
	}
	if chk.Floors != nil {
		for k, v := range chk.Floors(tier) {
			if counters[k] < v {
				inconcl = append(inconcl, fmt.Sprintf("observation floor missed: %s=%d < %d", k, counters[k], v))
			}
		}
	}
	if len(fps) < 2 {
		inconcl = append(inconcl, fmt.Sprintf("fewer than 2 distinct non-trivial cases (%d)", len(fps)))
	}

	// known findings
	findings := loadFindings()
	known := map[string]string{}
	var fresh []vrec
	for _, v := range viols {
		matched := false
		for _, f := range findings {
			if f.Property == propID && f.Key == v.V.Key {
				known[f.Key] = f.Text
				matched = true
				break
			}
		}
		if !matched {
			fresh = append(fresh, v)
		}
	}
	var knownList []string
	for k, t := range known {
		knownList = append(knownList, k)
		fmt.Printf("KNOWN-FINDING: property=%s %s (key=%s)\n", propID, t, k)
	}
	sort.Strings(knownList)

	// replays for fresh violations (one per key)
	seenKey := map[string]bool{}
	rdir := filepath.Join(VerifDir, "replays", id)
	for _, v := range fresh {
		if seenKey[v.V.Key] {
			continue
		}
		seenKey[v.V.Key] = true
		os.MkdirAll(rdir, 0755)
		path := filepath.Join(rdir, fmt.Sprintf("%s-s%d-c%d-%s.json", tier, seed, v.Index, sanitize(v.V.Key)))
		b, _ := json.MarshalIndent(map[string]interface{}{
			"property": propID, "check": id, "tier": tier, "seed": seed, "index": v.Index, "key": v.V.Key, "detail": v.V.Detail, "witness": v.V.Witness,
		}, "", " ")
		ioutil.WriteFile(path, b, 0644)
		fmt.Printf("VIOLATION property=%s replay=%s\n", propID, path)
		fmt.Printf("  key=%s %s\n", v.V.Key, v.V.Detail)
	}

	cov := map[string]interface{}{
		"evaluations":         evaluated + extraUnits,
		"cases":               evaluated,
		"distinct_nontrivial": len(fps),
		"rule":                chk.Rule,
		"samples":             samples,
		"observed":            counters,
	}
	if len(samples) == 0 {
		cov["samples"] = []interface{}{"(no sample recorded)"}
	}
	if chk.Extra != nil {
		for k, v := range chk.Extra(tier, counters) {
			cov[k] = v
		}
	}
	verdict := "held"
	code := 0
	if len(fresh) > 0 {
		verdict = "violated"
		code = 1
	} else if len(inconcl) > 0 {
		verdict = "inconclusive"
		code = 3
	}
	ev := Evidence{PropertyID: propID, Tier: tier, Seed: int64(seed), Level: chk.Level, Coverage: cov, Assumptions: chk.Assumptions,
		WallS: time.Since(t0).Seconds(), Violations: len(seenKey), Known: knownList, Inconcl: inconcl, Verdict: verdict}
	if ev.Known == nil {
		ev.Known = []string{}
	}
	if ev.Inconcl == nil {
		ev.Inconcl = []string{}
	}
	if ev.Assumptions == nil {
		ev.Assumptions = []string{}
	}
	// summary
	keys := make([]string, 0, len(counters))
	for k := range counters {
		keys = append(keys, k)
	}
	sort.Strings(keys)
	fmt.Printf("%s %s seed=%d: %s; cases=%d distinct_nontrivial=%d wall=%.1fs\n", id, tier, seed, verdict, evaluated, len(fps), ev.WallS)
	for _, k := range keys {
		fmt.Printf("  %-40s %d\n", k, counters[k])
	}
	for _, s := range inconcl {
		fmt.Printf("INCONCLUSIVE property=%s reason=%s\n", propID, s)
	}
	return ev, code
}

func firstLine(s string) string {
	if i := strings.Index(s, "\n"); i >= 0 {
		s = s[:i]
	}
	if len(s) > 200 {
		s = s[:200]
	}
	return s
}

func sanitize(s string) string {
	s = regexp.MustCompile(`[^A-Za-z0-9_.-]+`).ReplaceAllString(s, "_")
	if len(s) > 60 {
		s = s[:60]
	}
	return s
}

// ReplayMain re-executes the case named by a replay file, verbosely.
func ReplayMain(id, path string) int {
	chk := Get(id)
	if chk == nil {
		fmt.Fprintln(os.Stderr, "unknown check", id)
		return 2
	}
	b, err := ioutil.ReadFile(path)
	if err != nil {
		fmt.Fprintln(os.Stderr, err)
		return 2
	}
	var r struct {
		Check string `json:"check"`
		Tier  string `json:"tier"`
		Seed  uint64 `json:"seed"`
		Index int    `json:"index"`
		Key   string `json:"key"`
	}
	if err := json.Unmarshal(b, &r); err != nil {
		fmt.Fprintln(os.Stderr, err)
		return 2
	}
	if r.Check != "" && Get(r.Check) != nil {
		chk = Get(r.Check) // the witness came from one of the property's lanes
		id = r.Check
	}
	if r.Index < 0 {
		fmt.Println("replay: the witness is a whole-run observation (race report / process death); re-run the check with VERIF_SEED =", r.Seed)
		return 2
	}
	if chk.Init != nil {
		chk.Init()
	}
	scratch := filepath.Join(VerifDir, "build", "scratch", fmt.Sprintf("replay-%d", os.Getpid()))
	os.MkdirAll(scratch, 0755)
	defer os.RemoveAll(scratch)
	fmt.Printf("replaying %s tier=%s seed=%d case=%d (expected key %s)\n", id, r.Tier, r.Seed, r.Index, r.Key)
	res := RunCase(chk, r.Tier, r.Seed, r.Index, scratch, true)
	if res.Panic != "" {
		fmt.Printf("panic: %s\n", res.Panic)
		return 1
	}
	if len(res.Violations) > 0 {
		for _, v := range res.Violations {
			w, _ := json.MarshalIndent(v.Witness, "  ", " ")
			fmt.Printf("VIOLATION reproduced key=%s %s\n  witness=%s\n", v.Key, v.Detail, w)
		}
		return 1
	}
	fmt.Println("no violation reproduced")
	return 0
}

// QuietLogs discards the repository's logging (types' init installs a stdout handler).
func QuietLogs() {
	if os.Getenv("VERIF_LOGS") != "" { // debugging aid for replays: keep the repository's logging
		return
	}
	log.Root().SetHandler(log.DiscardHandler())
}
