package core

import (
	"fmt"
	"os"
	"strconv"
)

// Main is the vcheck command line (shared by h/cmd/vcheck and the per-check dev binaries).
func Main() {
	args := os.Args[1:]
	if len(args) == 0 {
		fmt.Println("usage: vcheck <id> [--tier quick|thorough] [--seed N] [--replay file]")
		os.Exit(2)
	}
	switch args[0] {
	case "--list":
		for _, id := range IDs() {
			fmt.Println(id)
		}
		return
	case "--needs-race":
		if c := Get(args[1]); c != nil && (c.Race || anyLane(c, func(l *Check) bool { return l.Race })) {
			fmt.Println("yes")
		} else {
			fmt.Println("no")
		}
		return
	case "--needs-asan":
		if c := Get(args[1]); c != nil && (c.Asan || anyLane(c, func(l *Check) bool { return l.Asan })) {
			fmt.Println("yes")
		} else {
			fmt.Println("no")
		}
		return
	case "--child":
		seed, _ := strconv.ParseUint(args[3], 10, 64)
		from, _ := strconv.Atoi(args[4])
		to, _ := strconv.Atoi(args[5])
		os.Exit(ChildMain(args[1], args[2], seed, from, to, args[6]))
	}
	id := args[0]
	tier := os.Getenv("VERIF_TIER")
	if tier == "" {
		tier = "quick"
	}
	seed := uint64(1)
	if s := os.Getenv("VERIF_SEED"); s != "" {
		if v, err := strconv.ParseUint(s, 10, 64); err == nil {
			seed = v
		}
	}
	replay := ""
	for i := 1; i < len(args); i++ {
		switch args[i] {
		case "--tier":
			i++
			tier = args[i]
		case "--seed":
			i++
			seed, _ = strconv.ParseUint(args[i], 10, 64)
		case "--replay":
			i++
			replay = args[i]
		case "quick", "thorough":
			tier = args[i]
		}
	}
	if replay != "" {
		os.Exit(ReplayMain(id, replay))
	}
	os.Exit(ParentMain(id, tier, seed))
}

func anyLane(c *Check, f func(*Check) bool) bool {
	for _, id := range c.Also {
		if l := Get(id); l != nil && f(l) {
			return true
		}
	}
	return false
}
