package chainkit

import (
	"fmt"
	"math/big"
	"time"

	cs "github.com/lianxiangcloud/linkchain/consensus"
	"github.com/lianxiangcloud/linkchain/libs/common"
	"github.com/lianxiangcloud/linkchain/libs/ser"
	"github.com/lianxiangcloud/linkchain/types"
)

// FixedTime is the timestamp base used for blocks and votes (no wall clock in cases).
var FixedTime = time.Unix(1569409200, 0).UTC()

// FaultValEvidence builds what ConsensusState.getLastFaultValsInfo builds for round-0 commits
// (and for round r > 0 the same way the code does).
func FaultValEvidence(status cs.NewStatus, lastCommit *types.Commit) types.Evidence {
	if status.LastBlockHeight+1 <= types.BlockHeightOne || status.LastRecover {
		return nil
	}
	lastRound := lastCommit.FirstPrecommit().Round
	fvi := &types.FaultValidatorsEvidence{BlockHeight: status.LastBlockHeight, Round: lastRound}
	if lastRound == 0 {
		fvi.Proposer = status.LastValidators.GetProposer().PubKey
	} else {
		fvi.FaultVal = status.LastValidators.GetProposer().PubKey
		vs := status.LastValidators.Copy()
		vs.IncrementAccum(lastRound)
		fvi.Proposer = vs.GetProposer().PubKey
	}
	return fvi
}

// Propose runs the proposer path of consensus.createProposalBlock on n:
// mempool reap -> CreateBlock -> header fields -> PreRunBlock -> part set.
func (n *Node) Propose(lastCommit *types.Commit, timeUnix uint64, extraEvidence []types.Evidence) (*types.Block, *types.PartSet, error) {
	st := n.Status
	height := st.LastBlockHeight + 1
	if lastCommit == nil {
		lastCommit = &types.Commit{}
	}
	block := n.App.CreateBlock(height, st.ConsensusParams.BlockSize.MaxTxs, st.ConsensusParams.BlockSize.MaxGas, timeUnix)
	if block == nil {
		return nil, nil, fmt.Errorf("CreateBlock returned nil at height %d", height)
	}
	block.Header.Coinbase = st.Validators.GetProposer().CoinBase
	block.AddEvidence(extraEvidence)
	if evi := FaultValEvidence(st, lastCommit); evi != nil {
		block.AddEvidence([]types.Evidence{evi})
	}
	block.Recover = 0
	block.ChainID = st.ChainID
	block.LastCommit = lastCommit
	block.LastBlockID = st.LastBlockID
	block.LastCommitHash = block.LastCommit.Hash()
	block.EvidenceHash = block.Evidence.Hash()
	block.ConsensusHash = common.BytesToHash(st.ConsensusParams.Hash())
	block.ValidatorsHash = common.BytesToHash(st.Validators.Hash())
	var perr interface{}
	func() {
		defer func() { perr = recover() }()
		n.App.PreRunBlock(block)
	}()
	if perr != nil {
		return nil, nil, fmt.Errorf("PreRunBlock panicked: %v", perr)
	}
	// The node never uses the proposer's block object again: the proposal travels as parts through
	// the internal queue and addProposalBlockPart decodes a fresh object (the object built here has a
	// block hash cached by a log statement before PreRunBlock filled in the result fields).
	parts := block.MakePartSet(st.ConsensusParams.BlockGossip.BlockPartSizeBytes)
	fresh, err := DecodeBlock(parts, 0)
	if err != nil {
		return nil, nil, fmt.Errorf("decode own proposal: %v", err)
	}
	return fresh, parts, nil
}

// DecodeBlock reassembles a block from a complete part set as addProposalBlockPart does,
// giving a fresh object with cold caches.
func DecodeBlock(parts *types.PartSet, maxBytes int) (*types.Block, error) {
	var block *types.Block
	if maxBytes <= 0 {
		maxBytes = 100 * 1024 * 1024
	}
	_, err := ser.DecodeReader(parts.GetReader(), &block, int64(maxBytes))
	return block, err
}

// RebuildParts re-creates a receiver-side part set by adding every part of src
// to a set made from the header.
func RebuildParts(src *types.PartSet) (*types.PartSet, error) {
	ps := types.NewPartSetFromHeader(src.Header())
	for i := 0; i < src.Total(); i++ {
		if ok, err := ps.AddPart(src.GetPart(i)); !ok || err != nil {
			return nil, fmt.Errorf("AddPart %d: %v %v", i, ok, err)
		}
	}
	return ps, nil
}

// SignVote returns a vote of validator index idx (in valset order) signed with its key.
func (g *Genesis) SignVote(status cs.NewStatus, vals *types.ValidatorSet, key ValKey, typ byte, height uint64, round int, blockID types.BlockID, ts time.Time) (*types.Vote, error) {
	addr := key.Address()
	idx, _ := vals.GetByAddress(addr)
	if idx < 0 {
		return nil, fmt.Errorf("key not in validator set")
	}
	v := &types.Vote{ValidatorAddress: addr, ValidatorIndex: idx, ValidatorSize: vals.Size(), Height: height, Round: round, Timestamp: ts, Type: typ, BlockID: blockID}
	sig, err := key.Priv.Sign(v.SignBytes(status.ChainID))
	if err != nil {
		return nil, err
	}
	v.Signature = sig
	return v, nil
}

// MakeCommit builds a commit for blockID at (height, round) signed by the given
// validators (all genesis validators if signers is nil), through a real VoteSet.
func (g *Genesis) MakeCommit(status cs.NewStatus, vals *types.ValidatorSet, height uint64, round int, blockID types.BlockID, signers []ValKey) (*types.Commit, error) {
	if signers == nil {
		signers = g.Vals
	}
	vs := types.NewVoteSet(status.ChainID, height, round, types.VoteTypePrecommit, vals)
	for _, k := range signers {
		v, err := g.SignVote(status, vals, k, types.VoteTypePrecommit, height, round, blockID, FixedTime.Add(time.Duration(height)*time.Second))
		if err != nil {
			return nil, err
		}
		if ok, err := vs.AddVote(v); !ok || err != nil {
			return nil, fmt.Errorf("AddVote: %v %v", ok, err)
		}
	}
	if !vs.HasTwoThirdsMajority() {
		return nil, fmt.Errorf("no +2/3 in MakeCommit")
	}
	return vs.MakeCommit(), nil
}

// Accept runs the validator path for a block: CheckBlock, CommitBlock, ApplyBlock
// (what doPrevote / finalizeCommit do). Returns the CheckBlock verdict and errors.
func (n *Node) Accept(block *types.Block, parts *types.PartSet, seenCommit *types.Commit, fastsync bool) (checked bool, err error) {
	if !n.App.CheckBlock(block) {
		return false, nil
	}
	vals, err := n.App.CommitBlock(block, parts, seenCommit, fastsync)
	if err != nil {
		return true, fmt.Errorf("CommitBlock: %v", err)
	}
	blockID := types.BlockID{Hash: block.Hash(), PartsHeader: parts.Header()}
	ns, err := n.BlockExec.ApplyBlock(n.Status.Copy(), blockID, block, vals)
	if err != nil {
		return true, fmt.Errorf("ApplyBlock: %v", err)
	}
	n.Status = ns
	return true, nil
}

// Step proposes on n, commits on n (and on the given followers, each decoding
// the block afresh from its parts). Returns the block.
func (n *Node) Step(g *Genesis, lastCommit *types.Commit, followers ...*Node) (*types.Block, *types.Commit, error) {
	height := n.Status.LastBlockHeight + 1
	block, parts, err := n.Propose(lastCommit, uint64(FixedTime.Unix())+height, nil)
	if err != nil {
		return nil, nil, err
	}
	blockID := types.BlockID{Hash: block.Hash(), PartsHeader: parts.Header()}
	commit, err := g.MakeCommit(n.Status, n.Status.Validators, height, 0, blockID, nil)
	if err != nil {
		return nil, nil, err
	}
	for _, f := range followers {
		rp, err := RebuildParts(parts)
		if err != nil {
			return nil, nil, err
		}
		fb, err := DecodeBlock(rp, 0)
		if err != nil {
			return nil, nil, fmt.Errorf("decode: %v", err)
		}
		ok, err := f.Accept(fb, rp, commit, false)
		if err != nil || !ok {
			return block, commit, fmt.Errorf("follower rejected block %d: checked=%v err=%v", height, ok, err)
		}
	}
	ok, err := n.Accept(block, parts, commit, false)
	if err != nil || !ok {
		return block, commit, fmt.Errorf("proposer rejected own block %d: checked=%v err=%v", height, ok, err)
	}
	return block, commit, nil
}

// ---------------------------------------------------------------- plain transactions

// TransferGas is the exact gas limit a plain value transfer must carry.
func TransferGas(value *big.Int) uint64 { return types.CalNewAmountGas(value, types.EverLiankeFee) }

// NewTransfer returns a signed plain transfer.
func NewTransfer(from Account, nonce uint64, to common.Address, value *big.Int) (*types.Transaction, error) {
	tx := types.NewTransaction(nonce, to, value, TransferGas(value), big.NewInt(types.ParGasPrice), nil)
	if err := tx.Sign(types.GlobalSTDSigner, from.Key); err != nil {
		return nil, err
	}
	return tx, nil
}

// NilCommit is the (empty, non-nil) last commit of the first block.
func NilCommit() *types.Commit { return &types.Commit{} }

// NewTokenTransfer returns a signed account-based transfer of a non-LKC token to a plain address.
func NewTokenTransfer(from Account, token common.Address, nonce uint64, to common.Address, value *big.Int) (*types.TokenTransaction, error) {
	tx := types.NewTokenTransaction(token, nonce, to, value, uint64(types.MinGasLimit), big.NewInt(types.ParGasPrice), nil)
	if err := tx.Sign(types.GlobalSTDSigner, from.Key); err != nil {
		return nil, err
	}
	return tx, nil
}

// NewContractCreation returns a signed EVM contract creation carrying code (init code) with gas limit gas.
func NewContractCreation(from Account, nonce uint64, value *big.Int, gas uint64, code []byte) (*types.Transaction, error) {
	tx := types.NewContractCreation(nonce, value, gas, big.NewInt(types.ParGasPrice), code)
	if err := tx.Sign(types.GlobalSTDSigner, from.Key); err != nil {
		return nil, err
	}
	return tx, nil
}

// NewCall returns a signed call of contract `to` with input data.
func NewCall(from Account, nonce uint64, to common.Address, value *big.Int, gas uint64, data []byte) (*types.Transaction, error) {
	tx := types.NewTransaction(nonce, to, value, gas, big.NewInt(types.ParGasPrice), data)
	if err := tx.Sign(types.GlobalSTDSigner, from.Key); err != nil {
		return nil, err
	}
	return tx, nil
}
