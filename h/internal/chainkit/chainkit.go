// Package chainkit builds a real single-process linkchain node (stores,
// application, mempool, block executor) from exported APIs only, mirroring
// cmd/commands/init.go (genesis) and node/node.go (wiring). DESIGN.md §4.1.
package chainkit

import (
	"crypto/ecdsa"
	"encoding/binary"
	"encoding/json"
	"fmt"
	"math/big"
	"os"
	"sort"
	"sync"

	"github.com/lianxiangcloud/linkchain/app"
	"github.com/lianxiangcloud/linkchain/blockchain"
	cfg "github.com/lianxiangcloud/linkchain/config"
	cs "github.com/lianxiangcloud/linkchain/consensus"
	cc "github.com/lianxiangcloud/linkchain/contract/contractcodes"
	"github.com/lianxiangcloud/linkchain/evidence"
	"github.com/lianxiangcloud/linkchain/libs/common"
	"github.com/lianxiangcloud/linkchain/libs/crypto"
	dbm "github.com/lianxiangcloud/linkchain/libs/db"
	"github.com/lianxiangcloud/linkchain/libs/log"
	"github.com/lianxiangcloud/linkchain/libs/p2p"
	"github.com/lianxiangcloud/linkchain/libs/txmgr"
	"github.com/lianxiangcloud/linkchain/mempool"
	"github.com/lianxiangcloud/linkchain/metrics"
	"github.com/lianxiangcloud/linkchain/state"
	"github.com/lianxiangcloud/linkchain/types"
	"github.com/lianxiangcloud/linkchain/utxo"
	"github.com/xunleichain/tc-wasm/vm"

	"verif/h/internal/rng"
)

// DB names, as node/node.go's dbProvider uses them.
var DBNames = []string{"blockstore", "txmgr", "state", "balance_record", "consensus_state", "evidence", "utxo", "utxo_output", "utxo_output_token"}

type Account struct {
	Key  *ecdsa.PrivateKey
	Addr common.Address
}

type ValKey struct {
	Priv  crypto.PrivKeyEd25519
	Power int64
}

func (v ValKey) PubKey() crypto.PubKey   { return v.Priv.PubKey() }
func (v ValKey) Address() crypto.Address { return v.Priv.PubKey().Address() }

type GenesisOpts struct {
	Seed        uint64
	NumAccounts int
	Powers      []int64 // one validator per entry
	ChainID     string
	Balance     *big.Int // initial balance per account (default 10^24)
	PartSize    int      // consensus param BlockPartSizeBytes (0 = default)
	MaxTxs      int
	// Tokens funds every account with TokenBalance of each listed token id at genesis
	// (plain token ids without a contract behind them: account-based token transfers only).
	Tokens       []common.Address
	TokenBalance *big.Int
}

type Genesis struct {
	Opts     GenesisOpts
	ChainID  string
	GenDoc   *types.GenesisDoc
	Accounts []Account
	Vals     []ValKey
	dbs      map[string][][2][]byte // snapshot of every genesis DB
}

var globalOnce sync.Once

// InitGlobals sets the process-wide switches the node sets at start-up.
func InitGlobals() {
	globalOnce.Do(func() {
		if os.Getenv("CHAINKIT_LOG") == "" {
			log.Root().SetHandler(log.DiscardHandler())
		} else {
			log.Root().SetHandler(log.LvlFilterHandler(log.LvlInfo, log.StreamHandler(os.Stderr, log.TerminalFormat(false))))
		}
		types.SaveBalanceRecord = false
		// node.NewNode initialises the metrics singleton with the validator key; CommitBlock reads it.
		metrics.PrometheusMetricInstance.Init(cfg.DefaultConfig(), crypto.GenPrivKeyEd25519FromSecret([]byte("verif-metrics")).PubKey(), log.NewNopLogger())
	})
}

func detKey(seed uint64, label string, i int) []byte {
	r := rng.Derive(seed, label, i)
	return r.Bytes(32)
}

// NewAccount returns a deterministic secp256k1 account.
func NewAccount(seed uint64, i int) Account {
	for n := 0; ; n++ {
		b := detKey(seed, "acct", i*1000+n)
		k, err := crypto.ToECDSA(b)
		if err == nil {
			return Account{Key: k, Addr: crypto.PubkeyToAddress(k.PublicKey)}
		}
	}
}

func NewValKey(seed uint64, i int, power int64) ValKey {
	return ValKey{Priv: crypto.GenPrivKeyEd25519FromSecret(detKey(seed, "val", i)), Power: power}
}

func snapshotDB(db dbm.DB) [][2][]byte {
	var out [][2][]byte
	it := db.Iterator(nil, nil)
	defer it.Close()
	for ; it.Valid(); it.Next() {
		k := append([]byte{}, it.Key()...)
		v := append([]byte{}, it.Value()...)
		out = append(out, [2][]byte{k, v})
	}
	return out
}

func restoreDB(kvs [][2][]byte) *dbm.MemDB {
	db := dbm.NewMemDB()
	for _, kv := range kvs {
		db.Set(kv[0], kv[1])
	}
	return db
}

// tlv helpers for the white-list validator contract's storage (state/state_contract.go reads it).
func tlvString(s string) []byte {
	b := []byte{state.TagString, 0, 0}
	binary.LittleEndian.PutUint16(b[1:], uint16(len(s)))
	return append(b, s...)
}

func packStringKey(key1, key2 string) []byte {
	k := append([]byte(key1), state.TagString, 0, 0)
	binary.LittleEndian.PutUint16(k[len(key1)+1:], uint16(len(key2)))
	return append(k, key2...)
}

// setWhiteValidators overwrites the validator white list of the genesis contract with vals.
func setWhiteValidators(st *state.StateDB, vals []ValKey) {
	var keys []string
	for _, v := range vals {
		keys = append(keys, fmt.Sprintf("0x%x", v.PubKey().Bytes()))
	}
	sort.Strings(keys) // std::set order
	list := []byte{state.TagArray, 0, 0}
	binary.LittleEndian.PutUint16(list[1:], uint16(len(keys)))
	for _, k := range keys {
		list = append(list, tlvString(k)...)
	}
	st.SetState(cfg.ContractValidatorsAddr, crypto.Keccak256Hash([]byte("ValidatorList")), list)
	for _, v := range vals {
		k := fmt.Sprintf("0x%x", v.PubKey().Bytes())
		js, _ := json.Marshal(state.ValidatorJSON{PubKey: k, CoinBase: cfg.ContractFoundationAddr, VotingPower: v.Power})
		val := append(tlvString(string(js)+"\x00"), []byte{}...)
		// stored form: tag, len(2), json, NUL  (reader takes buff[3:len-1])
		val = append([]byte{state.TagString, 0, 0}, append(js, 0)...)
		binary.LittleEndian.PutUint16(val[1:], uint16(len(js)+1))
		st.SetState(cfg.ContractValidatorsAddr, crypto.Keccak256Hash(packStringKey("Validator", k)), val)
	}
}

// initWasmContract mirrors cmd/commands/init.go initWasmContract.
func initWasmContract(st *state.StateDB, contractAddr common.Address, codeStr string, logger log.Logger) error {
	input := []byte("init|{}")
	code := common.Hex2Bytes(codeStr)
	caller := common.EmptyAddress
	value := big.NewInt(0)
	gas := uint64(1000000000000000000)
	st.CreateAccount(contractAddr)
	st.SetNonce(contractAddr, 1)
	st.SetCode(contractAddr, code)
	inner := vm.NewContract(caller.Bytes(), contractAddr.Bytes(), value, gas)
	inner.SetCallCode(contractAddr.Bytes(), crypto.Keccak256Hash(code).Bytes(), code)
	inner.Input = input
	inner.CreateCall = true
	eng := vm.NewEngine(inner, inner.Gas, st, logger)
	eng.SetTrace(false)
	a, err := eng.NewApp(inner.Address().String(), inner.Code, false)
	if err != nil {
		return fmt.Errorf("exec.NewApp fail: %s", err)
	}
	a.EntryFunc = vm.APPEntry
	ret, err := eng.Run(a, inner.Input)
	if err != nil {
		return fmt.Errorf("eng.Run fail: err=%s", err)
	}
	if _, err = a.VM.VMemory().GetString(ret); err != nil {
		return fmt.Errorf("vmem.GetString fail: err=%v", err)
	}
	return nil
}

// BuildGenesis mirrors createGenesisBlock + createConsensusStatus on MemDBs.
func BuildGenesis(o GenesisOpts) (*Genesis, error) {
	InitGlobals()
	if o.ChainID == "" {
		o.ChainID = "verif-chain"
	}
	if o.Balance == nil {
		o.Balance, _ = new(big.Int).SetString("1000000000000000000000000", 10)
	}
	if len(o.Powers) == 0 {
		o.Powers = []int64{10}
	}
	g := &Genesis{Opts: o, ChainID: o.ChainID, dbs: map[string][][2][]byte{}}
	for i := 0; i < o.NumAccounts; i++ {
		g.Accounts = append(g.Accounts, NewAccount(o.Seed, i))
	}
	for i, p := range o.Powers {
		g.Vals = append(g.Vals, NewValKey(o.Seed, i, p))
	}
	params := types.DefaultConsensusParams()
	if o.PartSize > 0 {
		params.BlockGossip.BlockPartSizeBytes = o.PartSize
	}
	if o.MaxTxs > 0 {
		params.BlockSize.MaxTxs = o.MaxTxs
	}
	gd := &types.GenesisDoc{
		GenesisTime:     "2019-01-01 00:00:00 +0000 UTC",
		ChainID:         o.ChainID,
		ConsensusParams: params,
		AllocAccounts:   map[string]types.GenesisAccount{},
	}
	for i, v := range g.Vals {
		gd.Validators = append(gd.Validators, types.GenesisValidator{PubKey: v.PubKey(), CoinBase: cfg.ContractFoundationAddr, Power: v.Power, Name: fmt.Sprintf("v%d", i)})
	}
	for _, a := range g.Accounts {
		gd.AllocAccounts[a.Addr.String()] = types.GenesisAccount{Balance: new(big.Int).Set(o.Balance)}
	}
	if err := gd.ValidateAndComplete(); err != nil {
		return nil, err
	}
	g.GenDoc = gd

	dbs := map[string]*dbm.MemDB{}
	for _, n := range DBNames {
		dbs[n] = dbm.NewMemDB()
	}
	logger := log.NewNopLogger()
	storeState, err := state.New(common.EmptyHash, state.NewKeyValueDBWithCache(dbs["state"], 0, true, 0))
	if err != nil {
		return nil, err
	}
	blockStore := blockchain.NewBlockStore(dbs["blockstore"])
	blockStore.SaveInitHeight(types.BlockHeightZero)
	for _, a := range g.Accounts {
		storeState.AddBalance(a.Addr, new(big.Int).Set(o.Balance))
		for _, t := range o.Tokens {
			tb := o.TokenBalance
			if tb == nil {
				tb = big.NewInt(1000000000000)
			}
			storeState.AddTokenBalance(a.Addr, t, new(big.Int).Set(tb))
		}
	}
	// deployOriginalContract
	for _, c := range []struct {
		addr common.Address
		code string
	}{
		{cfg.ContractCandidatesAddr, cc.CandidatesCodes},
		{cfg.ContractCoefficientAddr, cc.CoefficientCodes},
		{cfg.ContractCommitteeAddr, cc.CommitteeCodes},
		{cfg.ContractFoundationAddr, cc.FoundationCodes},
		{cfg.ContractPledgeAddr, cc.PledgeCodes},
		{cfg.ContractConsCommitteeAddr, cc.ConsCommitteeCodes},
		{cfg.ContractBlacklistAddr, cc.BlacklistCode},
		{cfg.ContractValidatorsAddr, cc.ValidatorsCodes},
	} {
		if len(c.code) == 0 {
			continue
		}
		if err := initWasmContract(storeState, c.addr, c.code, logger); err != nil {
			return nil, fmt.Errorf("deploy %x: %v", c.addr, err)
		}
	}
	setWhiteValidators(storeState, g.Vals)

	header := &types.Header{
		ChainID:    o.ChainID,
		Height:     types.BlockHeightZero,
		Coinbase:   common.EmptyAddress,
		Time:       uint64(1569409200),
		ParentHash: common.EmptyHash,
		StateHash:  common.EmptyHash,
		GasLimit:   params.BlockSize.MaxGas,
	}
	stateHash := storeState.IntermediateRoot(false)
	trieRoot, err := storeState.Commit(false, header.Height)
	if err != nil {
		return nil, err
	}
	storeState.Database().TrieDB().Commit(trieRoot, false)
	txsResult := types.TxsResult{TrieRoot: trieRoot, StateHash: stateHash}
	header.StateHash = stateHash
	block := &types.Block{Header: header, Data: &types.Data{}, LastCommit: &types.Commit{}}
	blockStore.SaveBlock(block, block.MakePartSet(params.BlockGossip.BlockPartSizeBytes), nil, nil, &txsResult)
	types.BlockBalanceRecordsInstance.Reset()
	if _, err := cs.CreateStatusFromGenesisDoc(dbs["consensus_state"], gd); err != nil {
		return nil, err
	}
	for _, n := range DBNames {
		g.dbs[n] = snapshotDB(dbs[n])
	}
	return g, nil
}

// Node is one replica: the stores, the application and its mempool, the block executor.
type Node struct {
	G          *Genesis
	DBs        map[string]dbm.DB
	BlockStore *blockchain.BlockStore
	CrossState *txmgr.Service
	UtxoStore  *utxo.UtxoStore
	BRS        *blockchain.BalanceRecordStore
	EventBus   *types.EventBus
	App        *app.LinkApplication
	Mempool    *mempool.Mempool
	EvStore    *evidence.EvidenceStore
	EvPool     *evidence.EvidencePool
	BlockExec  *cs.BlockExecutor
	Status     cs.NewStatus
	MemCfg     *cfg.MempoolConfig
}

type NodeOpts struct {
	MemCfg *cfg.MempoolConfig
	// WrapDB lets a check interpose on every store (crashdb).
	WrapDB func(name string, db dbm.DB) dbm.DB
}

// CloneDBs returns fresh MemDBs holding the genesis bytes.
func (g *Genesis) CloneDBs() map[string]dbm.DB {
	out := map[string]dbm.DB{}
	for _, n := range DBNames {
		out[n] = restoreDB(g.dbs[n])
	}
	return out
}

// NewNode builds a node on fresh copies of the genesis databases.
func (g *Genesis) NewNode(o NodeOpts) (*Node, error) {
	return OpenNode(g, g.CloneDBs(), o)
}

// OpenNode wires a node over existing databases exactly as node.NewNode does
// (including the one-block status rebuild).
func OpenNode(g *Genesis, dbs map[string]dbm.DB, o NodeOpts) (*Node, error) {
	InitGlobals()
	if o.WrapDB != nil {
		w := map[string]dbm.DB{}
		for k, v := range dbs {
			w[k] = o.WrapDB(k, v)
		}
		dbs = w
	}
	n := &Node{G: g, DBs: dbs}
	n.BlockStore = blockchain.NewBlockStore(dbs["blockstore"])
	initHeight, err := n.BlockStore.LoadInitHeight()
	if err != nil {
		return nil, err
	}
	types.UpdateBlockHeightZero(initHeight)
	n.BRS = blockchain.NewBalanceRecordStore(dbs["balance_record"], false)
	n.CrossState = txmgr.NewCrossState(dbs["txmgr"], n.BlockStore)
	n.BlockStore.SetCrossState(n.CrossState)
	status, err := cs.LoadStatus(dbs["consensus_state"])
	if err != nil {
		return nil, err
	}
	n.EventBus = types.NewEventBus()
	if err := n.EventBus.Start(); err != nil {
		return nil, err
	}
	n.EvStore = evidence.NewEvidenceStore(dbs["evidence"])
	n.EvPool = evidence.NewEvidencePool(dbs["consensus_state"], n.EvStore, status.Copy())
	types.BlacklistInstance.Init(dbs["evidence"])
	n.UtxoStore = utxo.NewUtxoStore(dbs["utxo"], dbs["utxo_output"], dbs["utxo_output_token"])
	n.UtxoStore.SetLogger(log.NewNopLogger()) // node.NewNode sets one; the store's error paths log through it
	n.App, err = app.NewLinkApplication(dbs["state"], n.BlockStore, n.UtxoStore, n.CrossState, n.EventBus, true, n.BRS, app.SetPoceeds, app.AllocAward)
	if err != nil {
		return nil, err
	}
	if os.Getenv("CHAINKIT_LOG") != "" {
		n.App.SetLogger(log.Root())
	}
	n.BlockExec = cs.NewBlockExecutor(dbs["consensus_state"], log.NewNopLogger(), n.EvPool)
	appHeight := n.App.Height()
	if status.LastBlockHeight+1 == appHeight {
		blockMeta := n.App.LoadBlockMeta(appHeight)
		block := n.App.LoadBlock(appHeight)
		if blockMeta == nil || block == nil {
			return nil, types.ErrUnknownBlock
		}
		validators := n.App.GetValidators(appHeight)
		newStatus, err := n.BlockExec.ApplyBlock(status, blockMeta.BlockID, block, validators)
		if err != nil {
			return nil, fmt.Errorf("rebuild status: %v", err)
		}
		status = newStatus.Copy()
	}
	n.Status = status
	mc := o.MemCfg
	if mc == nil {
		mc = cfg.DefaultMempoolConfig()
		mc.Broadcast = false
	}
	n.MemCfg = mc
	n.Mempool = mempool.NewMempool(mc, status.LastBlockHeight, nil)
	n.Mempool.SetApp(n.App)
	n.App.SetMempool(n.Mempool)
	n.App.SetConm(p2p.VerifNewConManager())
	return n, nil
}

func (n *Node) Close() {
	if n.Mempool != nil {
		n.Mempool.Stop()
	}
	if n.EventBus != nil {
		n.EventBus.Stop()
	}
}

func FoundationAddr() common.Address { return cfg.ContractFoundationAddr }
