package chainkit

import (
	"fmt"
	"math/big"
	"sort"

	"github.com/lianxiangcloud/linkchain/libs/common"
	"github.com/lianxiangcloud/linkchain/libs/crypto"
	lt "github.com/lianxiangcloud/linkchain/libs/cryptonote/types"
	"github.com/lianxiangcloud/linkchain/libs/cryptonote/xcrypto"
	"github.com/lianxiangcloud/linkchain/types"

	"verif/h/internal/rng"
)

// UWallet is the harness-side model of a confidential (UTXO) account: keys, sub-addresses and
// the outputs it owns, learnt by scanning committed blocks with the repository's own functions
// (mirrors wallet/wallet/linkaccount.go processNewTransaction).
type UWallet struct {
	ID       int
	Keys     *lt.AccountKey
	KeyIndex map[lt.PublicKey]uint64
	Subs     []lt.AccountAddress // index = sub-address index (0 = main)
	Outs     []*OwnedOut
}

// OwnedOut is one confidential output the ledger knows everything about.
type OwnedOut struct {
	Token    common.Address
	GIndex   uint64 // global sequence number of the output for its token
	OTAddr   lt.Key
	Commit   lt.Key
	RKey     lt.PublicKey // the tx key the derivation was made with
	OutIndex uint64       // index among the tx's confidential outputs
	Amount   *big.Int
	Mask     lt.Key
	KeyImage lt.Key
	SubIdx   uint64
	Owner    int
	Height   uint64
	TxHash   common.Hash
	Spent    bool // key image seen in a committed block
	Pending  bool // handed to a not yet committed transaction
}

// NewUWallet derives a deterministic account with nsub sub-addresses (mirrors wallet.RecoveryKeyToAccount).
func NewUWallet(seed uint64, id int, nsub int) *UWallet {
	var rk lt.SecretKey
	copy(rk[:], rng.Derive(seed, "uwallet", id).Bytes(32))
	spendSK, spendPK := xcrypto.GenerateKeys(rk)
	h := crypto.Keccak256(spendSK[:])
	var rk2 lt.SecretKey
	copy(rk2[:], h)
	viewSK, viewPK := xcrypto.GenerateKeys(rk2)
	acc := &lt.AccountKey{Addr: lt.AccountAddress{SpendPublicKey: spendPK, ViewPublicKey: viewPK}, SpendSKey: spendSK, ViewSKey: viewSK}
	w := &UWallet{ID: id, Keys: acc, KeyIndex: map[lt.PublicKey]uint64{spendPK: 0}, Subs: []lt.AccountAddress{acc.Addr}}
	for i := 1; i <= nsub; i++ {
		a := xcrypto.GetSubaddress(acc, uint32(i))
		w.Subs = append(w.Subs, a)
		w.KeyIndex[a.SpendPublicKey] = uint64(i)
	}
	return w
}

// Ledger is the generator-side knowledge of the hidden pool: every confidential output ever
// committed (in global order per token), who owns it and how much it holds.
type Ledger struct {
	Wallets []*UWallet
	Outs    map[common.Address][]*OwnedOut // per token, index = global sequence number
	ByImage map[lt.Key]*OwnedOut
	Unknown int // outputs no wallet recognised (value unknown to the ledger)
}

func NewLedger(ws []*UWallet) *Ledger {
	return &Ledger{Wallets: ws, Outs: map[common.Address][]*OwnedOut{}, ByImage: map[lt.Key]*OwnedOut{}}
}

// recognise tries wallet w on output idx of tx (mirrors the wallet's scan).
func recognise(w *UWallet, tx *types.UTXOTransaction, out *types.UTXOOutput, outputID int) (*OwnedOut, bool) {
	var derivs []lt.KeyDerivation
	keyOf := map[lt.KeyDerivation]lt.PublicKey{}
	if d, err := xcrypto.GenerateKeyDerivation(tx.RKey, w.Keys.ViewSKey); err == nil {
		derivs = append(derivs, d)
		keyOf[d] = tx.RKey
	}
	for _, ak := range tx.AddKeys {
		if d, err := xcrypto.GenerateKeyDerivation(ak, w.Keys.ViewSKey); err == nil {
			derivs = append(derivs, d)
			keyOf[d] = ak
		}
	}
	if len(derivs) == 0 {
		return nil, false
	}
	real, sub, err := types.IsOutputBelongToAccount(w.Keys, w.KeyIndex, out.OTAddr, derivs, uint64(outputID))
	if err != nil {
		return nil, false
	}
	sk, err := xcrypto.DeriveSecretKey(real, outputID, w.Keys.SpendSKey)
	if err != nil {
		return nil, false
	}
	if sub > 0 {
		sk = xcrypto.SecretAdd(sk, xcrypto.GetSubaddressSecretKey(w.Keys.ViewSKey, uint32(sub)))
	}
	ki, err := xcrypto.GenerateKeyImage(lt.PublicKey(out.OTAddr), sk)
	if err != nil {
		return nil, false
	}
	if outputID >= len(tx.RCTSig.EcdhInfo) || outputID >= len(tx.RCTSig.OutPk) {
		return nil, false
	}
	ecdh := &lt.EcdhTuple{Mask: tx.RCTSig.EcdhInfo[outputID].Mask, Amount: tx.RCTSig.EcdhInfo[outputID].Amount}
	scalar, err := xcrypto.DerivationToScalar(real, outputID)
	if err != nil {
		return nil, false
	}
	if !xcrypto.EcdhDecode(ecdh, lt.Key(scalar), false) {
		return nil, false
	}
	rate, err := types.GetUtxoCommitmentChangeRate(tx.TokenID)
	if err != nil {
		return nil, false
	}
	units := types.Hash2BigInt(ecdh.Amount)
	if !units.IsUint64() {
		return nil, false
	}
	// the decoded (mask, amount) must open the on-chain commitment, otherwise the output is junk to its owner
	c, err := xcrypto.GenC(ecdh.Mask, lt.Lk_amount(units.Uint64()))
	if err != nil || c != tx.RCTSig.OutPk[outputID].Mask {
		return nil, false
	}
	return &OwnedOut{Token: tx.TokenID, OTAddr: out.OTAddr, Commit: tx.RCTSig.OutPk[outputID].Mask, RKey: keyOf[real], OutIndex: uint64(outputID),
		Amount: new(big.Int).Mul(units, big.NewInt(rate)), Mask: ecdh.Mask, KeyImage: lt.Key(ki), SubIdx: sub, Owner: w.ID, TxHash: tx.Hash()}, true
}

// ScanBlock registers the confidential outputs and key images of a committed block.
func (l *Ledger) ScanBlock(b *types.Block) {
	for _, t := range b.Data.Txs {
		tx, ok := t.(*types.UTXOTransaction)
		if !ok {
			continue
		}
		for _, ki := range tx.GetInputKeyImages() {
			if o := l.ByImage[*ki]; o != nil {
				o.Spent = true
				o.Pending = false
			}
		}
		outputID := -1
		for _, o := range tx.Outputs {
			uo, ok := o.(*types.UTXOOutput)
			if !ok {
				continue
			}
			outputID++
			var owned *OwnedOut
			for _, w := range l.Wallets {
				if oo, ok := recognise(w, tx, uo, outputID); ok {
					owned = oo
					w.Outs = append(w.Outs, oo)
					break
				}
			}
			if owned == nil {
				l.Unknown++
				owned = &OwnedOut{Token: tx.TokenID, OTAddr: uo.OTAddr, Owner: -1, TxHash: tx.Hash()}
				if outputID < len(tx.RCTSig.OutPk) {
					owned.Commit = tx.RCTSig.OutPk[outputID].Mask
				}
			}
			owned.Height = b.Height
			owned.GIndex = uint64(len(l.Outs[tx.TokenID]))
			l.Outs[tx.TokenID] = append(l.Outs[tx.TokenID], owned)
			if owned.Owner >= 0 {
				l.ByImage[owned.KeyImage] = owned
			}
		}
	}
}

// HiddenValue is the value held by unspent confidential outputs of token that the ledger knows.
func (l *Ledger) HiddenValue(token common.Address) *big.Int {
	sum := new(big.Int)
	for _, o := range l.Outs[token] {
		if o.Owner >= 0 && !o.Spent {
			sum.Add(sum, o.Amount)
		}
	}
	return sum
}

// Spendable lists wallet w's unspent, not pending outputs of token.
func (l *Ledger) Spendable(w *UWallet, token common.Address) []*OwnedOut {
	var out []*OwnedOut
	for _, o := range w.Outs {
		if o.Token == token && !o.Spent && !o.Pending {
			out = append(out, o)
		}
	}
	return out
}

// ---------------------------------------------------------------- confidential transaction builders

// UtxoFeeAinToU is the LKC fee the chain demands for an account -> confidential transfer of value.
func UtxoFeeAinToU(value *big.Int) *big.Int {
	return new(big.Int).Mul(new(big.Int).SetUint64(types.CalNewAmountGas(value, types.EverLiankeFee)), big.NewInt(types.ParGasPrice))
}

// Dest builds a confidential destination entry.
func Dest(w *UWallet, sub uint64, amount *big.Int) *types.UTXODestEntry {
	return &types.UTXODestEntry{Addr: w.Subs[sub], Amount: new(big.Int).Set(amount), IsSubaddress: sub > 0}
}

// NewAinTx: account -> confidential (and optionally account) outputs, LKC. The fee is input - outputs.
func NewAinTx(from Account, nonce uint64, dests []types.DestEntry, fee *big.Int) (*types.UTXOTransaction, error) {
	total := new(big.Int).Set(fee)
	for _, d := range dests {
		total.Add(total, d.GetAmount())
	}
	src := &types.AccountSourceEntry{From: from.Addr, Nonce: nonce, Amount: total}
	tx, _, err := types.NewAinTokenTransaction(src, dests, common.EmptyAddress, big.NewInt(0), nil)
	if err != nil {
		return nil, err
	}
	if err := tx.Sign(types.GlobalSTDSigner, from.Key); err != nil {
		return nil, err
	}
	return tx, nil
}

// RingFor picks ring members (global indices) for spending o: the real output plus size-1 decoys.
func (l *Ledger) RingFor(r *rng.R, o *OwnedOut, size int) (ring []types.UTXORingEntry, realPos uint64) {
	all := l.Outs[o.Token]
	idx := map[uint64]bool{o.GIndex: true}
	for len(idx) < size && len(idx) < len(all) {
		idx[uint64(r.Intn(len(all)))] = true
	}
	var sorted []uint64
	for i := range idx {
		sorted = append(sorted, i)
	}
	sort.Slice(sorted, func(a, b int) bool { return sorted[a] < sorted[b] })
	for p, i := range sorted {
		ring = append(ring, types.UTXORingEntry{Index: i, OTAddr: all[i].OTAddr, Commit: all[i].Commit})
		if i == o.GIndex {
			realPos = uint64(p)
		}
	}
	return
}

// Source builds the source entry for spending o with the given ring size.
func (l *Ledger) Source(r *rng.R, o *OwnedOut, ringSize int) *types.UTXOSourceEntry {
	ring, pos := l.RingFor(r, o, ringSize)
	return &types.UTXOSourceEntry{Ring: ring, RingIndex: pos, RKey: o.RKey, OutIndex: o.OutIndex, Amount: new(big.Int).Set(o.Amount), Mask: o.Mask}
}

// NewUinTx: confidential inputs of wallet w -> dests (confidential and/or one account output), LKC.
// fee = sum(inputs) - sum(dests) (the builder computes it the same way).
func (l *Ledger) NewUinTx(r *rng.R, w *UWallet, ins []*OwnedOut, ringSize int, dests []types.DestEntry) (*types.UTXOTransaction, error) {
	var sources []*types.UTXOSourceEntry
	for _, o := range ins {
		sources = append(sources, l.Source(r, o, ringSize))
	}
	tx, ephs, mkeys, _, err := types.NewUinTokenTransaction(w.Keys, w.KeyIndex, sources, dests, common.EmptyAddress, common.EmptyAddress, big.NewInt(0), nil)
	if err != nil {
		return nil, fmt.Errorf("NewUinTokenTransaction: %v", err)
	}
	if err := types.UInTransWithRctSig(tx, sources, ephs, dests, mkeys); err != nil {
		return nil, fmt.Errorf("UInTransWithRctSig: %v", err)
	}
	return tx, nil
}

// UtxoGasFee returns fee amounts for confidential -> confidential and confidential -> account transfers
// given the application's current UTXO gas (App.GetUTXOGas()).
func UtxoFeeUinToU(utxoGas uint64) *big.Int {
	return new(big.Int).Mul(new(big.Int).SetUint64(utxoGas), big.NewInt(types.ParGasPrice))
}
func UtxoFeeUinToA(accOut *big.Int) *big.Int {
	return new(big.Int).Mul(new(big.Int).SetUint64(types.CalNewAmountGas(accOut, types.EverLiankeFee)), big.NewInt(types.ParGasPrice))
}
