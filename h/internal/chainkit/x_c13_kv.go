package chainkit

// Added for C13 (crash points in both storage modes). New file: nothing in the existing chainkit
// files is touched.

import (
	"fmt"
	"os"

	"github.com/lianxiangcloud/linkchain/app"
	"github.com/lianxiangcloud/linkchain/blockchain"
	cfg "github.com/lianxiangcloud/linkchain/config"
	cs "github.com/lianxiangcloud/linkchain/consensus"
	cc "github.com/lianxiangcloud/linkchain/contract/contractcodes"
	"github.com/lianxiangcloud/linkchain/evidence"
	"github.com/lianxiangcloud/linkchain/libs/common"
	dbm "github.com/lianxiangcloud/linkchain/libs/db"
	"github.com/lianxiangcloud/linkchain/libs/log"
	"github.com/lianxiangcloud/linkchain/libs/p2p"
	"github.com/lianxiangcloud/linkchain/libs/txmgr"
	"github.com/lianxiangcloud/linkchain/mempool"
	"github.com/lianxiangcloud/linkchain/state"
	"github.com/lianxiangcloud/linkchain/types"
	"github.com/lianxiangcloud/linkchain/utxo"
	"math/big"
)

// BuildGenesisMode is BuildGenesis with the storage mode of the state database selectable:
// isTrie=true is the full node (Merkle trie), false the default light node (flat key/value state
// with an undo file next to the database). Copy of BuildGenesis; only the marked lines differ.
func BuildGenesisMode(o GenesisOpts, isTrie bool) (*Genesis, error) {
	InitGlobals()
	if o.ChainID == "" {
		o.ChainID = "verif-chain"
	}
	if o.Balance == nil {
		o.Balance, _ = new(big.Int).SetString("1000000000000000000000000", 10)
	}
	if len(o.Powers) == 0 {
		o.Powers = []int64{10}
	}
	g := &Genesis{Opts: o, ChainID: o.ChainID, dbs: map[string][][2][]byte{}}
	for i := 0; i < o.NumAccounts; i++ {
		g.Accounts = append(g.Accounts, NewAccount(o.Seed, i))
	}
	for i, p := range o.Powers {
		g.Vals = append(g.Vals, NewValKey(o.Seed, i, p))
	}
	params := types.DefaultConsensusParams()
	if o.PartSize > 0 {
		params.BlockGossip.BlockPartSizeBytes = o.PartSize
	}
	if o.MaxTxs > 0 {
		params.BlockSize.MaxTxs = o.MaxTxs
	}
	gd := &types.GenesisDoc{
		GenesisTime:     "2019-01-01 00:00:00 +0000 UTC",
		ChainID:         o.ChainID,
		ConsensusParams: params,
		AllocAccounts:   map[string]types.GenesisAccount{},
	}
	for i, v := range g.Vals {
		gd.Validators = append(gd.Validators, types.GenesisValidator{PubKey: v.PubKey(), CoinBase: cfg.ContractFoundationAddr, Power: v.Power, Name: fmt.Sprintf("v%d", i)})
	}
	for _, a := range g.Accounts {
		gd.AllocAccounts[a.Addr.String()] = types.GenesisAccount{Balance: new(big.Int).Set(o.Balance)}
	}
	if err := gd.ValidateAndComplete(); err != nil {
		return nil, err
	}
	g.GenDoc = gd

	dbs := map[string]*dbm.MemDB{}
	for _, n := range DBNames {
		dbs[n] = dbm.NewMemDB()
	}
	logger := log.NewNopLogger()
	storeState, err := state.New(common.EmptyHash, state.NewKeyValueDBWithCache(dbs["state"], 0, isTrie, 0) /* mode */)
	if err != nil {
		return nil, err
	}
	blockStore := blockchain.NewBlockStore(dbs["blockstore"])
	blockStore.SaveInitHeight(types.BlockHeightZero)
	for _, a := range g.Accounts {
		storeState.AddBalance(a.Addr, new(big.Int).Set(o.Balance))
		for _, t := range o.Tokens {
			tb := o.TokenBalance
			if tb == nil {
				tb = big.NewInt(1000000000000)
			}
			storeState.AddTokenBalance(a.Addr, t, new(big.Int).Set(tb))
		}
	}
	// deployOriginalContract
	for _, c := range []struct {
		addr common.Address
		code string
	}{
		{cfg.ContractCandidatesAddr, cc.CandidatesCodes},
		{cfg.ContractCoefficientAddr, cc.CoefficientCodes},
		{cfg.ContractCommitteeAddr, cc.CommitteeCodes},
		{cfg.ContractFoundationAddr, cc.FoundationCodes},
		{cfg.ContractPledgeAddr, cc.PledgeCodes},
		{cfg.ContractConsCommitteeAddr, cc.ConsCommitteeCodes},
		{cfg.ContractBlacklistAddr, cc.BlacklistCode},
		{cfg.ContractValidatorsAddr, cc.ValidatorsCodes},
	} {
		if len(c.code) == 0 {
			continue
		}
		if err := initWasmContract(storeState, c.addr, c.code, logger); err != nil {
			return nil, fmt.Errorf("deploy %x: %v", c.addr, err)
		}
	}
	setWhiteValidators(storeState, g.Vals)

	header := &types.Header{
		ChainID:    o.ChainID,
		Height:     types.BlockHeightZero,
		Coinbase:   common.EmptyAddress,
		Time:       uint64(1569409200),
		ParentHash: common.EmptyHash,
		StateHash:  common.EmptyHash,
		GasLimit:   params.BlockSize.MaxGas,
	}
	stateHash := storeState.IntermediateRoot(false)
	trieRoot, err := storeState.Commit(false, header.Height)
	if err != nil {
		return nil, err
	}
	storeState.Database().TrieDB().Commit(trieRoot, false)
	txsResult := types.TxsResult{TrieRoot: trieRoot, StateHash: stateHash}
	header.StateHash = stateHash
	block := &types.Block{Header: header, Data: &types.Data{}, LastCommit: &types.Commit{}}
	blockStore.SaveBlock(block, block.MakePartSet(params.BlockGossip.BlockPartSizeBytes), nil, nil, &txsResult)
	types.BlockBalanceRecordsInstance.Reset()
	if _, err := cs.CreateStatusFromGenesisDoc(dbs["consensus_state"], gd); err != nil {
		return nil, err
	}
	for _, n := range DBNames {
		g.dbs[n] = snapshotDB(dbs[n])
	}
	return g, nil
}

// OpenNodeMode is OpenNode with the storage mode selectable (node.go: isTrie := config.FullNode).
// In flat mode the state database's Dir() must name a directory private to the node: the undo
// file kvState.wal lives there. Copy of OpenNode; only the marked line differs.
func OpenNodeMode(g *Genesis, dbs map[string]dbm.DB, o NodeOpts, isTrie bool) (*Node, error) {
	InitGlobals()
	if o.WrapDB != nil {
		w := map[string]dbm.DB{}
		for k, v := range dbs {
			w[k] = o.WrapDB(k, v)
		}
		dbs = w
	}
	n := &Node{G: g, DBs: dbs}
	n.BlockStore = blockchain.NewBlockStore(dbs["blockstore"])
	initHeight, err := n.BlockStore.LoadInitHeight()
	if err != nil {
		return nil, err
	}
	types.UpdateBlockHeightZero(initHeight)
	n.BRS = blockchain.NewBalanceRecordStore(dbs["balance_record"], false)
	n.CrossState = txmgr.NewCrossState(dbs["txmgr"], n.BlockStore)
	n.BlockStore.SetCrossState(n.CrossState)
	status, err := cs.LoadStatus(dbs["consensus_state"])
	if err != nil {
		return nil, err
	}
	n.EventBus = types.NewEventBus()
	if err := n.EventBus.Start(); err != nil {
		return nil, err
	}
	n.EvStore = evidence.NewEvidenceStore(dbs["evidence"])
	n.EvPool = evidence.NewEvidencePool(dbs["consensus_state"], n.EvStore, status.Copy())
	types.BlacklistInstance.Init(dbs["evidence"])
	n.UtxoStore = utxo.NewUtxoStore(dbs["utxo"], dbs["utxo_output"], dbs["utxo_output_token"])
	n.UtxoStore.SetLogger(log.NewNopLogger()) // node.NewNode sets one; the store's error paths log through it
	n.App, err = app.NewLinkApplication(dbs["state"], n.BlockStore, n.UtxoStore, n.CrossState, n.EventBus, isTrie /* mode */, n.BRS, app.SetPoceeds, app.AllocAward)
	if err != nil {
		return nil, err
	}
	if os.Getenv("CHAINKIT_LOG") != "" {
		n.App.SetLogger(log.Root())
	}
	n.BlockExec = cs.NewBlockExecutor(dbs["consensus_state"], log.NewNopLogger(), n.EvPool)
	appHeight := n.App.Height()
	if status.LastBlockHeight+1 == appHeight {
		blockMeta := n.App.LoadBlockMeta(appHeight)
		block := n.App.LoadBlock(appHeight)
		if blockMeta == nil || block == nil {
			return nil, types.ErrUnknownBlock
		}
		validators := n.App.GetValidators(appHeight)
		newStatus, err := n.BlockExec.ApplyBlock(status, blockMeta.BlockID, block, validators)
		if err != nil {
			return nil, fmt.Errorf("rebuild status: %v", err)
		}
		status = newStatus.Copy()
	}
	n.Status = status
	mc := o.MemCfg
	if mc == nil {
		mc = cfg.DefaultMempoolConfig()
		mc.Broadcast = false
	}
	n.MemCfg = mc
	n.Mempool = mempool.NewMempool(mc, status.LastBlockHeight, nil)
	n.Mempool.SetApp(n.App)
	n.App.SetMempool(n.Mempool)
	n.App.SetConm(p2p.VerifNewConManager())
	return n, nil
}
