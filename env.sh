export GOFLAGS=-mod=mod GOPROXY=off GOSUMDB=off GOTOOLCHAIN=local CGO_LDFLAGS=-L/verif/build/lib
