#!/bin/bash
# tools/confirm_seeded.sh <name>...  : in the sub-agent's worktree /tmp/mut-<name> run the demonstration with the change (must fail)
# and with the change reverted (must pass); print one line per name.
for N in "$@"; do
  W=/tmp/mut-$N; O=/tmp/mut-out/$N
  CMD=$(python3 -c "import json;print(json.load(open('$O/meta.json'))['demo_cmd'])")
  cd $W || { echo "$N NO-WORKTREE"; continue; }
  git diff -- . ':!xcshimgo' > /tmp/confirm-$N.cur.diff
  ( set -o pipefail; eval "$CMD" ) > /tmp/confirm-$N.with.log 2>&1; RW=$?
  git apply -R $O/patch.diff || { echo "$N CANNOT-REVERT"; continue; }
  ( set -o pipefail; eval "$CMD" ) > /tmp/confirm-$N.without.log 2>&1; RO=$?
  git apply $O/patch.diff
  echo "$N with_change_exit=$RW without_change_exit=$RO $( [ $RW -ne 0 ] && [ $RO -eq 0 ] && echo CONFIRMED || echo NOT-CONFIRMED )"
done
