#!/bin/bash
# tools/sweep.sh <seed> [tier] : run every registered check once at the given seed, one summary line per lane.
# Evidence files are rewritten by the checks themselves; with seed != 1 the evidence is restored afterwards
# (committed evidence is the seed-1 run).
cd /verif
S=${1:-1}; T=${2:-quick}
LOG=build/scratch/sweep-$T-s$S.log; : > $LOG
[ "$S" != 1 ] && { rm -rf build/scratch/evidence-keep; cp -r evidence build/scratch/evidence-keep; }
for ID in $(python3 -c "import json;print(' '.join(c['property_id'] for c in json.load(open('MANIFEST.json'))['checks']))"); do
  start=$(date +%s)
  VERIF_SEED=$S ./run.sh $ID $T > build/scratch/sweep-$ID.out 2>&1; rc=$?
  echo "$ID rc=$rc $(( $(date +%s)-start ))s $(grep -E ': held|: violated|: inconclusive' build/scratch/sweep-$ID.out | tr '\n' ' ')" >> $LOG
  grep -E '^VIOLATION|^INCONCLUSIVE' build/scratch/sweep-$ID.out | cut -c1-250 >> $LOG
done
[ "$S" != 1 ] && { rm -rf evidence; mv build/scratch/evidence-keep evidence; }
echo DONE >> $LOG
