#!/bin/bash
# tools/sweep_ids.sh <seed> <tier> <ID>... : like sweep.sh for the given checks only.
cd /verif
S=$1; T=$2; shift 2
LOG=build/scratch/sweepids-$T-s$S.log; : > $LOG
for ID in "$@"; do
  start=$(date +%s)
  VERIF_SEED=$S ./run.sh $ID $T > build/scratch/sweep-$ID.out 2>&1; rc=$?
  echo "$ID rc=$rc $(( $(date +%s)-start ))s $(grep -E ': held|: violated|: inconclusive' build/scratch/sweep-$ID.out | tr '\n' ' ')" >> $LOG
  grep -E '^VIOLATION|^INCONCLUSIVE' build/scratch/sweep-$ID.out | cut -c1-250 >> $LOG
done
echo DONE >> $LOG
