#!/opt/veriftools/pyvenv/bin/python
import json, jsonschema, glob, sys
jsonschema.validate(json.load(open('/verif/MANIFEST.json')), json.load(open('/root/.vp/MANIFEST.schema.json')))
es = json.load(open('/root/.vp/EVIDENCE.schema.json'))
bad = 0
for f in sorted(glob.glob('/verif/evidence/*.json')):
    try:
        jsonschema.validate(json.load(open(f)), es)
    except Exception as e:
        bad += 1
        print("INVALID", f, str(e)[:300])
man = json.load(open('/verif/MANIFEST.json'))
for c in man['checks']:
    pid = c['property_id']
    try:
        ev = json.load(open('/verif/evidence/%s.json' % pid))
    except Exception as e:
        bad += 1; print("MISSING evidence for", pid); continue
    lvl = c.get('level_claimed', {}).get('category') if isinstance(c.get('level_claimed'), dict) else c.get('level_claimed')
    if ev.get('level') != lvl:
        bad += 1; print("LEVEL MISMATCH", pid, "manifest", lvl, "evidence", ev.get('level'))
    if ev.get('property_id', pid) != pid:
        bad += 1; print("ID MISMATCH", pid)
print("manifest ok; evidence files:", len(glob.glob('/verif/evidence/*.json')), "invalid:", bad)
sys.exit(1 if bad else 0)
