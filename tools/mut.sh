#!/bin/bash
# tools/mut.sh <dev-cmd-dir> <ID> [seed]  — build the dev binary against /tmp/wt-lead (which the caller has mutated) and run quick.
. /verif/env.sh
cd /verif
D=$1; ID=$2; SEED=${3:-1}
timeout 900 go build -modfile=/tmp/lead.mod -tags verif -o build/bin/$D.mut ./h/cmd/$D || { echo BUILD-FAILED; exit 9; }
if [ "$(build/bin/$D.mut --needs-race $ID)" = yes ]; then
  timeout 900 go build -race -modfile=/tmp/lead.mod -tags "verif appengine" -o build/bin/$D.mut.race ./h/cmd/$D || { echo BUILD-FAILED; exit 9; }
  export VCHECK_RACE_BIN=/verif/build/bin/$D.mut.race
fi
VERIF_SEED=$SEED timeout 1800 build/bin/$D.mut $ID quick 2>&1 | grep -E "VIOLATION|key=|INCONCLUSIVE|KNOWN|held|violated|inconclusive" | head -12
