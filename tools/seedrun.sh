#!/bin/bash
# tools/seedrun.sh <mutname> <ID> [<ID>...] : apply /tmp/mut-out/<mutname>/patch.diff (or /verif/seeded/<mutname>/patch.diff) in the
# scratch worktree /tmp/wt-seed-<mutname>, build vcheck against it and run the quick tier of the given checks.
. /verif/env.sh
M=$1; shift
P=/tmp/mut-out/$M/patch.diff; [ -f "$P" ] || P=/verif/seeded/$M/patch.diff
W=/tmp/wt-seed-$M
git -C /repo worktree remove --force $W 2>/dev/null
git -C /repo worktree add --detach $W main -q || exit 9
git -C $W apply "$P" || { echo "PATCH-DOES-NOT-APPLY $M"; git -C /repo worktree remove --force $W; exit 9; }
sed "s#=> /repo#=> $W#" /verif/go.mod > /tmp/seed-$M.mod; cp /verif/go.sum /tmp/seed-$M.sum
cd /verif
timeout 1200 go build -modfile=/tmp/seed-$M.mod -tags verif -o build/bin/vcheck.seed-$M ./h/cmd/vcheck || { echo "BUILD-FAILED $M"; exit 9; }
for ID in "$@"; do
  if [ "$(build/bin/vcheck.seed-$M --needs-race $ID)" = yes ]; then
    [ -f build/bin/vcheck.seed-$M.race ] || timeout 1200 go build -race -modfile=/tmp/seed-$M.mod -tags "verif appengine" -o build/bin/vcheck.seed-$M.race ./h/cmd/vcheck
    export VCHECK_RACE_BIN=/verif/build/bin/vcheck.seed-$M.race
  fi
  echo "=== $M vs $ID"
  VERIF_SEED=${VERIF_SEED:-1} timeout 2400 build/bin/vcheck.seed-$M $ID quick 2>&1 | grep -E "^VIOLATION|^  key=|INCONCLUSIVE|KNOWN|: held|: violated|: inconclusive" | cut -c1-300 | head -8
done
rm -f build/bin/vcheck.seed-$M build/bin/vcheck.seed-$M.race /tmp/seed-$M.mod /tmp/seed-$M.sum
git -C /repo worktree remove --force $W
