#!/bin/bash
# tools/at_commit.sh <commit> <tag> <ID> [seeds...] : run check <ID> (quick) with /repo as of <commit> in a scratch worktree (confirms pre-fix behaviour).
. /verif/env.sh
C=$1; T=$2; ID=$3; shift 3
W=/tmp/wt-at-$T
git -C /repo worktree remove --force $W 2>/dev/null
git -C /repo worktree add --detach $W $C -q || exit 9
sed "s#=> /repo#=> $W#" /verif/go.mod > /tmp/at-$T.mod; cp /verif/go.sum /tmp/at-$T.sum
cd /verif
timeout 1200 go build -modfile=/tmp/at-$T.mod -tags verif -o build/bin/vcheck.at-$T ./h/cmd/vcheck || { echo BUILD-FAILED; exit 9; }
if [ "$(build/bin/vcheck.at-$T --needs-race $ID)" = yes ]; then
  timeout 1200 go build -race -modfile=/tmp/at-$T.mod -tags "verif appengine" -o build/bin/vcheck.at-$T.race ./h/cmd/vcheck
  export VCHECK_RACE_BIN=/verif/build/bin/vcheck.at-$T.race
fi
for s in ${@:-1}; do
  echo "=== $ID at $C seed $s"
  VERIF_SEED=$s timeout 2400 build/bin/vcheck.at-$T $ID quick 2>&1 | grep -E "^VIOLATION|^  key=|INCONCLUSIVE|KNOWN|: held|: violated|: inconclusive" | cut -c1-260 | head -40
done
rm -f build/bin/vcheck.at-$T build/bin/vcheck.at-$T.race /tmp/at-$T.mod /tmp/at-$T.sum
git -C /repo worktree remove --force $W
