#!/usr/bin/env python3
"""prints the prompt for a breakage-seeding sub-agent for property <id> (only the property text, nothing from /verif)"""
import json, sys
pid = sys.argv[1]
suf = sys.argv[2] if len(sys.argv) > 2 else 'ab'
A, B = suf[0], suf[1]
p = [json.loads(l) for l in open('/verif/properties.jsonl') if json.loads(l)['id'] == pid][0]
name = pid.lower()
print(f"""You are testing how robust a Go codebase's guarantees are. The repository is lianxiangcloud/linkchain (a Tendermint-style BFT blockchain node with EVM/WASM VMs, Merkle trie state, mempool, p2p and a Monero-style confidential transaction layer), checked out at /repo. You must NOT modify /repo itself and must not look at or use anything under /verif.

First read /opt/xcshim/README.md (how to build and run tests of the core packages in this offline sandbox). Create your own scratch git worktree with `/opt/xcshim/setup_worktree.sh {name}{A}` (prints the directory, /tmp/mut-{name}{A}) and work only there (for a second, different change use `{name}{B}`).

The property under test (it currently holds in /repo):

  Title: {p['title']}
  Statement: {p['statement']}
  Quantified over: {p['quantifier']['text']}
  Code it is anchored in: {', '.join(p['anchors']['files'])}
  Mechanisms meant to make it hold: {'; '.join(m['name'] + ' (' + m.get('where','') + ')' for m in p['anchors']['mechanism'])}

Your job: produce TWO different, realistic changes to the repository's non-test source code (one per worktree), each of which
  (1) still compiles (`go build ./...` for the touched packages, with the env from the README; also `go vet` is not required),
  (2) keeps the repository's pinned test suite passing for every package it touches (see the README for which packages are in the pinned suite and how to run them; run them),
  (3) BREAKS the property above — in a way that needs something specific to manifest: a particular interleaving or message order, a crash or fault at a particular point, a multi-step sequence of operations, an unusual input or boundary value, or two cooperating sites that each look fine alone. Not a change that ordinary use would expose at once (no "always return true"), and not a change to test files, build tags, or logging only. Think of the kind of regression a plausible refactoring, optimisation or "simplification" by a maintainer could introduce: an off-by-one in a bound, a dropped guard on one rarely taken branch, a cache keyed too loosely, a lock dropped around one access, a check moved after the point it protects, a comparison that is wrong only for equal values, a missing undo entry, a flush skipped on one path, etc. The two changes should hit different mechanisms.
  (4) comes with a DEMONSTRATION: a Go test file (or small program) that you add in the worktree, which FAILS (or prints a clear violation) with your change and PASSES on the unmodified code. Verify both yourself. NEVER use `git stash` (the stash list is shared by all worktrees of /repo and other agents work concurrently): for the unmodified run do `git diff > /tmp/mine.diff; git apply -R /tmp/mine.diff; <run>; git apply /tmp/mine.diff`. The demonstration may use unexported identifiers (same-package test) and may need the stand-in described in the README.

Deliverables for each change X in {{{A},{B}}}, written to /tmp/mut-out/{name}X/ (create it):
  - patch.diff  : `git diff` of the source change only (no test/demonstration files, no xcshimgo/)
  - the demonstration file(s), with a one-line comment at the top saying where in the tree it goes and the exact command to run it
  - meta.json   : {{"property": "{pid}", "summary": "<what the change does>", "needs": "<what specific condition it needs to manifest>", "files": [...], "demo_cmd": "<one shell command, nothing after it: no trailing prose or parentheses>", "pinned_tests_run": "<command(s) you ran and result>"}}
Leave the worktrees in place. Keep each patch small (a few lines). Always wrap commands in `timeout`. Your final message: for each change, 3-5 lines: what, why it is subtle, how the demo shows it, test results.""")
