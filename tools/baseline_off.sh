#!/bin/bash
# Runs the repository's pinned suite with the verif tag OFF (the BASELINE.json command)
# and compares with BASELINE.json's stable_pass list. Exit 0 iff every stable test passes.
set -uo pipefail
export GOFLAGS=-mod=mod GOPROXY=off GOSUMDB=off GOTOOLCHAIN=local
OUT=${1:-/verif/build/scratch/baseline-$$.json}
mkdir -p "$(dirname "$OUT")"
(cd /repo && go test -mod=mod -json -vet=off -count=1 -timeout 25m ./... ) > "$OUT" 2>/dev/null
python3 - "$OUT" <<'PY'
import json, sys
passed, failed = set(), set()
for line in open(sys.argv[1], errors="replace"):
    line = line.strip()
    if not line.startswith("{"): continue
    try: ev = json.loads(line)
    except Exception: continue
    a, pkg, t = ev.get("Action"), ev.get("Package", ""), ev.get("Test")
    if t is None or a not in ("pass", "fail"): continue
    (passed if a == "pass" else failed).add(pkg + "::" + t)
passed -= failed
base = set(json.load(open("/root/.vp/BASELINE.json"))["stable_pass"])
missing = sorted(base - passed)
print("baseline tests: %d, passing now: %d, missing: %d" % (len(base), len(base & passed), len(missing)))
for m in missing[:40]: print("  MISSING", m)
sys.exit(1 if missing else 0)
PY
rc=$?
rm -f "$OUT"
exit $rc
