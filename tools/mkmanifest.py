#!/usr/bin/env python3
"""Generates /verif/MANIFEST.json from the table below (one place to edit)."""
import json, os, subprocess
V = os.path.dirname(os.path.dirname(os.path.abspath(__file__)))
ALL = ["C%02d" % i for i in range(1, 21)]

CHECKS = {
 "C01": dict(
  level="exploration", design="§5 C01", engine="detsim",
  technique="deterministic simulation of N real ConsensusState objects (verif hooks) under a seeded adversarial scheduler with Byzantine validators; online trace oracle over emission/delivery/commit logs; threaded lane C01T (real goroutines, in-memory network) under the Go race detector",
  text="Each case is one adversarial schedule (delivery order, loss, duplication, armed and stale timeouts, catch-up gossip, Byzantine equivocation / conflicting proposals / selective delivery with <1/3 power) over 4-7 real consensus state machines with real key files. "
       "The oracle keeps its own vote/lock bookkeeping and checks agreement of CommitBlock calls, an independent >2/3 tally of every seen-commit and the three voting-discipline rules. Held on the schedules explored only; liveness is not claimed.",
  note="trusted: the 250-line trace oracle, the light application (accepts any block extending its head), consensus/verif_hooks.go (synchronous entry points, no behaviour change). The wall-clock 'recover' mode is not triggered."),
 "C02": dict(
  level="exploration", design="§5 C02", engine="detsim",
  technique="deterministic consensus simulation over the real LinkApplication: Byzantine proposer gossips real-proposer-path blocks with one enumerated consensus-level corruption (consistently re-hashed, correctly signed proposal); trace oracle on correct validators' votes, ApplyBlock outcome, SIGTERM-to-self trap",
  text="3 correct state machines with the real application, mempool, evidence pool and block executor; at its turn the Byzantine proposer sends a block with one of 26 corruptions (header fields, LastCommit defects, evidence defects) at heights 1..5. "
       "Violation: a correct node prevotes/precommits it, ApplyBlock fails after a commit, the process-kill request is observed, a panic, or no recovery commit in the fault-free continuation. The repository's own ValidateBlock is cross-checked against the by-construction knowledge that the block is invalid. Held on the corruptions x heights explored.",
  note="rounds > 0 for the corrupted proposal and joint corruptions are not yet driven. One genuine defect found and fixed (known_findings.txt)."),
 "C16": dict(
  level="exploration", design="§5 C16", engine="detsim",
  technique="hostile-input monitoring: boundary-valued consensus messages of all kinds and mutated bytes through the real ConsensusReactor.Receive and the real state machine in a deterministic simulation; panic / allocation / bounded-progress oracles; lane C16M: bursts over a real MConnection; lane C16G: the real reactor with its per-peer gossip goroutines running for a hostile peer that announces peer state consistent with the victim but with hostile indices and bit arrays (goroutine panic = process death = violation)",
  text="Every hostile message is encoded and handed to the real reactor, then the state machine's peer queue is drained; a panic after the reactor accepted the message, a per-message allocation above 64 MiB, a child killed by the 6 GiB address-space cap, or a victim that cannot commit the next block in a fault-free continuation (with modelled catch-up gossip) is a violation. "
       "Sender roles: outsider, validator with a valid key, current proposer with its key; hostile units include correctly signed proposals whose part set really reassembles to hostile block bytes, and verbatim repeats. Held on the messages and states explored.",
  note="panics inside Receive itself are recovered per connection in production and are only counted. Five genuine defects found and fixed (known_findings.txt): negative part index, nil LastCommit precommit, unbounded parts total, proposal block without header/data/commit, malformed peer bit arrays killing the process through the gossip goroutines."),
 "C17": dict(
  level="exploration", design="§5 C17", engine="refmodel",
  technique="differential monitoring of the real ValidatorSet / updateStatus / fault-evidence code against a one-step big.Int reference, path-composition comparison, exact fairness windows; copies of sets reloaded from their stored encoding vs the running set; lane C17S: simulated nodes that skip rounds or hold commits of one block from different rounds (scripted split) must agree on proposers and on the record about the previous proposer",
  text="Random validator sets (incl. extreme powers): IncrementAccum(n) vs all compositions of n, single step vs saturating reference, exact weighted-round-robin fairness over windows, identity/copy/aliasing, add/update/remove histories vs a map model, ApplyBlock's validator update and VerifyFaultValEvidence call sites. Held on the sets explored.",
  note="library level plus ApplyBlock at height 1; round skipping inside enterNewRound is exercised by C01's simulator (same IncrementAccum). One genuine defect found and fixed (known_findings.txt)."),
 "C03": dict(
  level="exploration", design="§5 C03", engine="refmodel",
  technique="differential monitoring of VerifyCommit / BlockExecutor.ValidateBlock / VoteSet / MultiSignAccountTx.VerifySign against an independent big.Int tally with independently rebuilt sign-bytes and raw-key signature verification; shadow model of VoteSet per AddVote",
  text="Commits are derived by mutation from valid ones so that cases sit exactly on the 2/3 threshold (floor-1, floor, floor+1 for every total mod 3, totals up to 2^62-1) and cover 19 slot defect classes; VoteSet histories (exhaustive orders for small sets, peer-claimed majorities, conflicts, re-signed votes) are compared with a shadow model after every AddVote. "
       "The safety direction (accepting what the reference rejects) is decisive. Held on the commits and histories explored.",
  note="fast-sync acceptance and reconstructLastCommit are exercised only through the functions they call; VerifyCommitAny (no caller in the repo) counts one validator many times - diagnostic only."),
 "C04": dict(
  level="fault_enumeration", design="§5 C04", engine="core",
  technique="release-set history oracle over the real FilePV with crash points enumerated per request: in-process key-file state enumeration (OLD+stray temp / NEW x re-issue orders) and real syscall faults / SIGKILL injected with strace in a child process",
  text="Random signing histories (votes, proposals, regressions, same-HRS variants, reloads). The harness records every released signature (verified with the public key, sign-bytes parsed independently) and re-reads the key file after every call. "
       "For selected writing requests both file states reachable through WriteFileAtomic are enumerated and continued from; one case in 32 runs a request under strace with 12 fault points (error / SIGKILL at openat, write, close, renameat, unlinkat ...). Held on the histories and crash points enumerated.",
  note="crash = process death; power loss (rename not yet durable; WriteFileAtomic does not fsync the directory) is out of reach. SignVoteWithoutSave/SignData bypass the record by construction and are diagnostics only (no node code calls them on the consensus path)."),
 "C11": dict(
  level="exploration", design="§5 C11", engine="refmodel",
  technique="type-directed round-trip monitoring over every registered type + hostile-input monitoring of every decoder entry point (panic capture, allocation bound calibrated on valid encodings, sacrificial process for fatal errors); raw lane: ser.Split/SplitString/SplitList/CountValues against a reference header parser with forged boundary sizes and a watchdog for calls that do not return",
  text="98 target types (49 registered concrete types, 15 interfaces, 34 containers) enumerated from the real registry: generated values must decode equal and re-encode identically at every entry point (incl. the reactors' decodeMsg and the WAL decoder), map insertion order must not matter; "
       "tree-directed and byte-level hostile inputs must never panic, die or allocate beyond A*len+16MiB. Held on the values and inputs explored.",
  note="decoder leniency towards non-canonical input is counted, not judged (the property is about encodings produced by the encoder). Four genuine defects found and fixed (known_findings.txt)."),
 "C12": dict(
  level="exploration", design="§5 C12", engine="refmodel",
  technique="single-leaf perturbation monitoring of block identity (reflective perturbator over header/txs/evidence/commit, with and without re-derived hashes) + adversarial part-set schedules against a byte oracle and an independent audit-path rule (incl. signed headers with nil / empty / short roots); lane C12S: real ConsensusState objects fed conflicting, padded (block encoding followed by further bytes) and same-header-twin proposals, with an online held-block monitor (strict re-decode of every complete part set held in RoundState, identity and byte comparison with the proposer's encoding, locked block = block of the node's own precommit)",
  text="Generated signed blocks: every single-field perturbation must change the block hash or the part-set hash (or fail ValidateBasic when hashes are not re-derived); receiver-side part sets fed permutations, duplicates, truncated/index-shifted (negative and >= total)/proof-tampered/foreign parts accept only byte-identical parts and reassemble the proposer's bytes. Held on the blocks and schedules explored.",
  note="no confidential transactions in generated blocks; fields covered only by the part-set hash (Header.Recover, Commit.BlockID) are counted as such, which the property allows. Two genuine defects found through lane C12S and fixed (known_findings.txt): trailing bytes after the block accepted, lock on a same-header twin."),
 "C13": dict(
  level="fault_enumeration", design="§5 C13", engine="chainkit",
  technique="crash-point enumeration by fault injection at the database boundary of the real commit path (every store wrapped; the commit is cut after each individual write or batch, all forced orders of SaveBlock's concurrent writers, undo file cut accordingly), restart of a real node on the surviving bytes and a cross-store consistency oracle against a reference replica; pruning lane: generated chains, windows and validator-change heights with a read-back oracle over every retained height",
  text="Crash lane: chains of 4-5 blocks (transfers, A->U, U->U, U->A, contract create/call, duplicate-vote evidence) in trie and flat key-value mode; for every block and every cut k=0..W (W=15-21 units) the node is restarted and block store, balances/nonces/contract storage, spent key images, output index, tx index and receipts, status and VALDK/CSPK records must all reflect the same prefix, the acknowledged block must be present, the interrupted block must be re-committable and one more block must commit; recovery itself is crashed after each of its writes. "
       "Pruning lane: chain lengths 1..40, K in {1,2,5,10,50,100}, validator changes, 1-3 ticks: for every retained height block, meta, parts, commits, tx index, LoadValidators, LoadConsensusParams must be readable, the seen commit must verify against the loaded validators and evidence of that height must be verifiable; deletion must stay within a 10^6-operation budget. Held on what was explored.",
  note="four genuine defects fixed (block-store prune underflow, consensus prune ignoring the window and deleting fallback records, tx index entries above Height(), and the SaveBlock/SaveUtxo window that left key images unspent after a crash: double spend demonstrated, now replayed at start-up). MemDB with emulated goleveldb read semantics; torn writes inside one batch are not modelled; the consensus WAL is not in the loop (C14/C04)."),
 "C14": dict(
  level="fault_enumeration", design="§5 C14", engine="core",
  technique="damage enumeration over logs written through the real baseWAL/autofile group (every truncation offset, every single-byte corruption for small logs, crash images of rotated groups) with a record-sequence oracle and an independent frame parser; marker-search oracle",
  text="Plans of 3-60 records of all six kinds with rotations (real RotateFile at plan-chosen ticks, with/without Flush; in every sixth plan also right after chosen Group.Write calls of the encoder (hook VerifInterposeGroupWriter) and from a concurrent rotator goroutine; some layouts start past file index 999) and restarts; plain-reader and real GroupReader lanes; SearchForEndHeight on intact, cut and corrupted groups. "
       "Decoded messages must be a prefix of what was written, never invented; a marker is found iff completely written. Held on the logs and damages enumerated.",
  note="corruptions are sampled for logs > 4 KiB (all header bytes + 3 payload bytes per record). Two genuine defects found and fixed (known_findings.txt)."),
 "C18": dict(
  level="exploration", design="§5 C18", engine="core",
  technique="unique-id FIFO/stream-equality monitoring of real SecretConnection/MConnection pairs over throttling pipes under the race detector; independent protocol-level handshake adversary (21 tamper classes, honest sessions also with key and auth frame in one transport read); lane C18S: the real p2p Switch with inbound loopback connections played by a harness peer (real handshake, generated node-info claims), oracle over the peer set and the (peer id, message) pairs delivered to a reactor",
  text="Stream lane: exact byte equality for write/read size menus around frame boundaries. MConnection lane: per-channel delivery must be whole, unaltered, duplicate-free, on the right channel and a linear extension of the Send order (logical clock), nothing lost before a fence. "
       "Handshake lane: the harness plays the remote side itself; every tampering must be refused and the honest run must succeed with the right remote key. "
       "Switch lane (C18S): every peer id registered in the switch, and every identity a reactor sees on a message, must be the id of the key proved on that connection; a peer presenting the key it proved must be admitted. Held on the connections explored.",
  note="only the compiled-in compress frame mode can be produced through the exported API; MITM relaying without channel binding is a protocol limit, not judged. Four genuine defects found and fixed (known_findings.txt): reflected auth (two repairs), ephemeral-key over-read, node-info key not bound to the authenticated key."),
 "C19": dict(
  level="exploration", design="§5 C19", engine="refmodel",
  technique="differential monitoring of the real libs/db backends (memdb, goleveldb, bolt, badger, prefix views) against a reference sorted map after every operation; concurrent atomic-batch-visibility lane (C19R) under the race detector",
  text="Histories of sets/deletes/batches (write, reset, abandon, reuse)/reopens over hostile key shapes; after every operation lookups and forward/reverse/prefix iterations with bounds are compared with the reference. "
       "C19R: writers commit batches of unique generations while readers take iterator snapshots; every snapshot must equal the reference after some prefix of the batch order. Held on the histories explored, modulo the listed known findings.",
  note="six genuine defects fixed; seven recorded as known findings (empty-key writes dropped by bolt/badger, badger batch auto-commit, hash-sharded stores with db_counts>1 are not ordered) - known_findings.txt."),
 "C05": dict(
  level="exploration", design="§5 C05", engine="chainkit",
  technique="differential monitoring of real block execution: every generated block is executed by the proposer path and by cold / warm-cache / fast-sync / reopened replicas at different GOMAXPROCS, and all result components are compared byte for byte; variant blocks (reordered, appended, upgraded) must get the same verdict everywhere; race lane C05R executes the validator path while goroutines hammer mempool admission and getters under the race detector",
  text="Chains of 3-8 generated blocks over the real application (transfers, token transfers, EVM and WASM creations and calls, failing calls, multi-sign and upgrade transactions, A->U, U->U, U->A, evidence record). For every block: PreRunBlock must not panic, every replica's CheckBlock verdict must agree and accept a correct proposer's block, and state hash, receipt hash, gas used, receipts, logs, bloom, confidential outputs, key images, special txs, candidates and post-commit roots must be identical across executions. Held on the chains explored.",
  note="five genuine defects fixed (three pool-recheck gaps that made a correct proposer's block fail or be rejected; CommitBlock publishing state outside its readers' locks; process-wide WASM module cache keyed by address only changed block results). Flat key-value mode and non-empty candidate lists are not covered here."),
 "C06": dict(
  level="exploration", design="§5 C06", engine="chainkit",
  technique="conservation-ledger monitoring of real chains (sum over every leaf of the committed account trie + generator-side hidden-pool ledger, per-account reference ledger from receipts) and a spender-side tampering adversary (63 classes) at mempool admission and block validation; shapes the rules could legitimately admit (two account inputs, transfers bidding above the network gas price) are judged by the supply after the block",
  text="Even cases: chains of 5-10 blocks with every transaction kind incl. purpose-built contracts (revert, out-of-gas, SELFDESTRUCT to others/itself, ISSUE) and confidential transfers (ring 1 and 2..11); after every block supply per asset, fee collector credit, hidden pool vs account side and every balance vs a reference ledger are checked on a proposer and a validator replica. "
       "Odd cases: valid confidential transactions are tampered as the spender could (inflated re-proved outputs, shifted commitments, fee variants, swapped proofs, 2^64 wraps, non-unit amounts) and must be rejected by AddTx and CheckBlock; controls must be accepted. Held on what was explored, modulo three known findings.",
  note="crypto stand-in: real Pedersen/MLSAG/ring-signature algebra and a sound 64-bit range check, not Monero bit-compatible. Known findings: ring-size-1 pseudo-outs unbound (2 keys, S6) and value sent to a contract self-destructed earlier in the block is burned."),
 "C07": dict(
  level="exploration", design="§5 C07", engine="chainkit",
  technique="history monitoring of real chains read back from the block store (key-image multiset, per-sender nonce sequences, tx-hash multiset) under an attacker that re-uses inputs at every entry point; concurrent mempool lane C07R under the race detector",
  text="Generated chains with confidential and account transactions; attacks: same key image twice in one tx, two spends in one block (Byzantine hand-built blocks re-issued with the validator's own result fields so that the double spend is the only possible reason for rejection), re-spend of committed inputs via mempool / CheckTx / blocks, after restarts, ring size 1 vs larger ring, account tx replays, nonce gaps. "
       "Every attempt must be refused with the error class of the attacked mechanism and the read-back chain must satisfy the oracle; positive controls must be accepted. Held on the chains and attempts explored.",
  note="restart re-opens the same MemDB objects (disk flush defects and the SaveBlock/SaveUtxo crash window belong to C13/C19); only LKC confidential transfers; crypto stand-in has the real algebra but is not Monero bit-compatible."),
 "C15": dict(
  level="exploration", design="§5 C15", engine="chainkit",
  technique="invariant monitoring of the real mempool against the real application after every operation of generated submission/reap/commit histories (snapshot under the pool's own lock, replica node as executability oracle); concurrent lane C15R under the race detector with exact checks of every mid-flight Reap and proposal",
  text="Histories of 100-150 operations per case against a node with a real LinkApplication: valid / future / stale / replacement / underfunded / duplicate / oversized / under-paid submissions, confidential A->U, U->U, U->A with ring sizes 1-5, conflicting and already-spent confidential spends; Reap with caps, proposal probes validated by a replica, own commits and foreign commits with rival transactions, over pool size configurations. "
       "After every operation: offered lists pairwise distinct, not committed, key images distinct and unspent, per-sender nonces gap-free from the committed nonce, offered and queued disjoint, executable queued transactions promoted, membership of every submitted transaction exact; a block built from a Reap must be proposed and accepted by the replica. Held on the histories explored.",
  note="three genuine defects fixed (speculative state advanced by a rejected under-paid A->U; unsynchronised BasicChecked flag; Sender writing to the shared transaction). Wall-clock rules (GoodTxDropTime, cache expiry) are pinned off; special transactions and contract calls are not generated here (C05 does)."),
 "C08": dict(
  level="exploration", design="§5 C08", engine="chainkit",
  technique="mutation monitoring of the real signature and ownership checks: every signed transaction kind is perturbed at every leaf of its wire tree (plus structural, multi-field, signature-encoding and chain-parameter forms) and offered to CheckBasic, the mempool and a second replica's CheckBlock; differential lane against a pure-Go secp256k1 reference for Ecrecover/VerifySignature/ValidateSignatureValues/From, repeated together with a length/shape sweep of the cgo wrapper in an AddressSanitizer build (lane C08A); ownership scans with non-owner key sets; sender-cache lane (warm object vs fresh recovery, warm vs cold replica)",
  text="Four lanes. account: honest tx/create/txt/cut/mst, every leaf mutated with all byte and structural operators, 57 hostile (r,s,v) forms per signature, 6 hash suffixes x 3 v-forms (other chain parameter, none). confidential: two replicas, five wallets x four sub-addresses scan every output (owner recognises/decodes/derives the key image, non-owners are blind), five spend kinds mutated by reflection at every typed site plus re-balanced pseudo-outs, compensated fee, forged spends with non-owner keys; a mutant counts as accepted only if CheckBasic passes and a block containing it passes CheckBlock on the second replica. cache: re-signed warm objects and pool-cached candidates must be attributed to the sender recovered from their bytes. signature: library functions vs the reference. Held on what was explored, modulo three known findings.",
  note="one genuine defect fixed (memoised sender survived re-signing). Known findings (repairs would change consensus rules / transaction format): unprotected v=27/28 signatures accepted; RCTSig of account->confidential transactions unsigned; ring-size-1 pseudo-outs unbound. RingCT is the stand-in: the composition of the pre-MLSAG hash is the shim's."),
 "C09": dict(
  level="exploration", design="§5 C09", engine="refmodel",
  technique="recorded-observation and differential-twin monitoring of the real StateDB: random programs with nested snapshot/revert and copies on all four storage backends",
  text="Random programs (balance, token, nonce, credits, code, storage, create, self-destruct, logs, refunds; nested snapshots; copies and copies of copies) on plain trie, wrapped trie and flat key-value (MemDB / goleveldb) backends. "
       "Every observable recorded at Snapshot must be restored by RevertToSnapshot; an operation on one state must not change any observable of another; an untouched twin replaying the original's own operations must reach the same roots. Held on the programs explored, modulo the listed known findings.",
  note="one genuine defect fixed (shared Tokens map); two known findings in the flat key-value mode (pending updates ignored by reads/copies). Root differences with equal observables (S5b) are diagnostics."),
 "C10": dict(
  level="exploration", design="§5 C10", engine="refmodel",
  technique="runtime differential monitoring: real trie executions vs content-map oracle; adversarial proof tampering; reference-count lane over the node cache (Reference/Dereference of chains of committed states with equal and reverting roots: referenced roots must read back their content)",
  text="Random histories (update/delete/get/commit/reopen, plain and secure tries, prefix-heavy keys) are executed on the real trie; "
       "after each history the canonical-root, lookup, iteration and proof oracles are evaluated against a content map, every proof is "
       "tampered node by node. Held on the executions listed in evidence, nothing more.",
  note="trusted: keccak, ser encoding as black boxes, the 60-line content-map oracle. Known finding: iteration order for prefix-related keys (known_findings.txt)."),
 "C20": dict(
  level="exploration", design="§5 C20", engine="core",
  technique="tracer-based frame monitoring of the real EVM (runtime.Execute/Call/Create with evm.Config{Debug, Tracer}): panic capture, gas arithmetic, step budget, world-state snapshot before/after every failing inner frame, second independent run for determinism",
  text="Uniform random and grammar-generated programs (truncated pushes, invalid jumps, huge memory offsets, CALL family to self/others/precompiles, CREATE/CREATE2, SELFDESTRUCT, chain token opcodes, recursion to the depth limit) for gas in {0,1,2300,1e5,1e7...}. "
       "Violations: panic/fatal, left-over gas > supplied, gas increasing inside a frame, steps > max(1e7,100*gas), a failed frame leaving any getter-observable state change, value of a failed call not back with the caller, two runs differing in result/gas/state root/trace. Held on the programs explored, modulo the known finding.",
  note="WASM is not reached (no toolchain for programs); execution through vm/runtime, not through transactions. One genuine defect fixed, one known finding (unmetered decimals() probe after ISSUE)."),
}

NOT_YET = "check not built yet in this commit (see DESIGN.md §5 for the planned monitor)"

def main():
    hooks_commits = []
    try:
        out = subprocess.check_output(["git", "-C", "/repo", "log", "--format=%H %s"], text=True)
        for l in out.splitlines():
            h, s = l.split(" ", 1)
            if s.startswith("verif hooks:"):
                hooks_commits.append(h)
    except Exception:
        pass
    m = {
     "version": 1,
     "setup_cmd": "./run.sh --setup",
     "hooks": {
       "guard": "verif",
       "enable": "go build -tags verif (run.sh builds h/cmd/vcheck with -tags verif against `replace github.com/lianxiangcloud/linkchain => /repo`)",
       "baseline_off_cmd": "./tools/baseline_off.sh",
       "source_commits": hooks_commits,
       "add_only": True,
     },
     "engines": [
       {"name": "core", "path": "h/internal/core", "serves_properties": sorted(CHECKS), "kind_free_text": "child-process case runner, evidence writer, replay, known-findings matcher, race-report parser"},
       {"name": "detsim", "path": "h/internal/detsim", "serves_properties": ["C01","C02","C16","C17"], "kind_free_text": "deterministic single-goroutine simulation of N real ConsensusState objects: network pool, seeded adversarial scheduler, Byzantine validators with real keys, reactor harness, trace oracle"},
       {"name": "chainkit", "path": "h/internal/chainkit", "serves_properties": ["C02","C05","C06","C07","C08","C13","C15"], "kind_free_text": "real single-process chain on MemDBs from exported APIs: genesis with the WASM system contracts, application, mempool, block executor, block pipeline"},
       {"name": "refmodel", "path": "h/checks", "serves_properties": ["C03","C09","C10","C11","C12","C17","C19"], "kind_free_text": "small reference models (sorted map, content map, one-step rotation, tallies) used as oracles next to the real code"},
       {"name": "shim", "path": "shim", "serves_properties": ["C01","C02","C05","C06","C07","C08","C13","C15","C16","C17","C20"], "kind_free_text": "link-time stand-in for libxcrypto (C on libsodium + cgo-exported Go TLV layer) that makes the core packages executable"},
     ],
     "checks": [],
     "not_applicable": [],
     "notes": "Technique family: runtime monitoring and sanitizers. Every check runs the real code of /repo (rebuilt from the working tree with -tags verif) and decides with an oracle over observed executions. See DESIGN.md.",
    }
    for pid in ALL:
        c = CHECKS.get(pid)
        if not c:
            m["not_applicable"].append({"property_id": pid, "reason": NOT_YET})
            continue
        m["checks"].append({
          "property_id": pid,
          "quick_cmd": "./run.sh %s quick" % pid,
          "thorough_cmd": "./run.sh %s thorough" % pid,
          "evidence_file": "/verif/evidence/%s.json" % pid,
          "replay_cmd_template": "./run.sh %s --replay {path}" % pid,
          "engine": c.get("engine", "core"),
          "level_claimed": {"category": c["level"], "text": c["text"], "design_ref": c["design"]},
          "level_note": c["note"],
          "technique": c["technique"],
        })
    json.dump(m, open(os.path.join(V, "MANIFEST.json"), "w"), indent=1)
    print("checks:", len(m["checks"]), "not_applicable:", len(m["not_applicable"]))

if __name__ == "__main__":
    main()
