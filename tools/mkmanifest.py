#!/usr/bin/env python3
"""Generates /verif/MANIFEST.json from the table below (one place to edit)."""
import json, os, subprocess
V = os.path.dirname(os.path.dirname(os.path.abspath(__file__)))
ALL = ["C%02d" % i for i in range(1, 21)]

CHECKS = {
 "C01": dict(
  level="exploration", design="§5 C01", engine="detsim",
  technique="deterministic simulation of N real ConsensusState objects (verif hooks) under a seeded adversarial scheduler with Byzantine validators; online trace oracle over emission/delivery/commit logs",
  text="Each case is one adversarial schedule (delivery order, loss, duplication, armed and stale timeouts, catch-up gossip, Byzantine equivocation / conflicting proposals / selective delivery with <1/3 power) over 4-7 real consensus state machines with real key files. "
       "The oracle keeps its own vote/lock bookkeeping and checks agreement of CommitBlock calls, an independent >2/3 tally of every seen-commit and the three voting-discipline rules. Held on the schedules explored only; liveness is not claimed.",
  note="trusted: the 250-line trace oracle, the light application (accepts any block extending its head), consensus/verif_hooks.go (synchronous entry points, no behaviour change). The wall-clock 'recover' mode is not triggered."),
 "C02": dict(
  level="exploration", design="§5 C02", engine="detsim",
  technique="deterministic consensus simulation over the real LinkApplication: Byzantine proposer gossips real-proposer-path blocks with one enumerated consensus-level corruption (consistently re-hashed, correctly signed proposal); trace oracle on correct validators' votes, ApplyBlock outcome, SIGTERM-to-self trap",
  text="3 correct state machines with the real application, mempool, evidence pool and block executor; at its turn the Byzantine proposer sends a block with one of 25 corruptions (header fields, LastCommit defects, evidence defects) at heights 1..5. "
       "Violation: a correct node prevotes/precommits it, ApplyBlock fails after a commit, the process-kill request is observed, a panic, or no recovery commit in the fault-free continuation. The repository's own ValidateBlock is cross-checked against the by-construction knowledge that the block is invalid. Held on the corruptions x heights explored.",
  note="rounds > 0 for the corrupted proposal and joint corruptions are not yet driven. One genuine defect found and fixed (known_findings.txt)."),
 "C16": dict(
  level="exploration", design="§5 C16", engine="detsim",
  technique="hostile-input monitoring: boundary-valued consensus messages of all kinds and mutated bytes through the real ConsensusReactor.Receive and the real state machine in a deterministic simulation; panic / allocation / bounded-progress oracles",
  text="Every hostile message is encoded and handed to the real reactor, then the state machine's peer queue is drained; a panic after the reactor accepted the message, a per-message allocation above 64 MiB, a child killed by the 6 GiB address-space cap, or a victim that cannot commit the next block in a fault-free continuation (with modelled catch-up gossip) is a violation. "
       "Sender roles: outsider, validator with a valid key, current proposer with its key. Held on the messages and states explored.",
  note="panics inside Receive itself are recovered per connection in production and are only counted. Three genuine defects found and fixed (known_findings.txt)."),
 "C17": dict(
  level="exploration", design="§5 C17", engine="refmodel",
  technique="differential monitoring of the real ValidatorSet / updateStatus / fault-evidence code against a one-step big.Int reference, path-composition comparison, exact fairness windows",
  text="Random validator sets (incl. extreme powers): IncrementAccum(n) vs all compositions of n, single step vs saturating reference, exact weighted-round-robin fairness over windows, identity/copy/aliasing, add/update/remove histories vs a map model, ApplyBlock's validator update and VerifyFaultValEvidence call sites. Held on the sets explored.",
  note="library level plus ApplyBlock at height 1; round skipping inside enterNewRound is exercised by C01's simulator (same IncrementAccum). One genuine defect found and fixed (known_findings.txt)."),
 "C10": dict(
  level="exploration", design="§5 C10", engine="refmodel",
  technique="runtime differential monitoring: real trie executions vs content-map oracle; adversarial proof tampering",
  text="Random histories (update/delete/get/commit/reopen, plain and secure tries, prefix-heavy keys) are executed on the real trie; "
       "after each history the canonical-root, lookup, iteration and proof oracles are evaluated against a content map, every proof is "
       "tampered node by node. Held on the executions listed in evidence, nothing more.",
  note="trusted: keccak, ser encoding as black boxes, the 60-line content-map oracle. Known finding: iteration order for prefix-related keys (known_findings.txt)."),
}

NOT_YET = "check not built yet in this commit (see DESIGN.md §5 for the planned monitor)"

def main():
    hooks_commits = []
    try:
        out = subprocess.check_output(["git", "-C", "/repo", "log", "--format=%H %s"], text=True)
        for l in out.splitlines():
            h, s = l.split(" ", 1)
            if s.startswith("verif hooks:"):
                hooks_commits.append(h)
    except Exception:
        pass
    m = {
     "version": 1,
     "setup_cmd": "./run.sh --setup",
     "hooks": {
       "guard": "verif",
       "enable": "go build -tags verif (run.sh builds h/cmd/vcheck with -tags verif against `replace github.com/lianxiangcloud/linkchain => /repo`)",
       "baseline_off_cmd": "./tools/baseline_off.sh",
       "source_commits": hooks_commits,
       "add_only": True,
     },
     "engines": [
       {"name": "core", "path": "h/internal/core", "serves_properties": sorted(CHECKS), "kind_free_text": "child-process case runner, evidence writer, replay, known-findings matcher, race-report parser"},
       {"name": "detsim", "path": "h/internal/detsim", "serves_properties": ["C01","C02","C16","C17"], "kind_free_text": "deterministic single-goroutine simulation of N real ConsensusState objects: network pool, seeded adversarial scheduler, Byzantine validators with real keys, reactor harness, trace oracle"},
       {"name": "chainkit", "path": "h/internal/chainkit", "serves_properties": ["C02","C05","C06","C07","C08","C13","C15"], "kind_free_text": "real single-process chain on MemDBs from exported APIs: genesis with the WASM system contracts, application, mempool, block executor, block pipeline"},
       {"name": "refmodel", "path": "h/checks", "serves_properties": ["C03","C09","C10","C11","C12","C17","C19"], "kind_free_text": "small reference models (sorted map, content map, one-step rotation, tallies) used as oracles next to the real code"},
       {"name": "shim", "path": "shim", "serves_properties": ["C01","C02","C05","C06","C07","C08","C13","C15","C16","C17","C20"], "kind_free_text": "link-time stand-in for libxcrypto (C on libsodium + cgo-exported Go TLV layer) that makes the core packages executable"},
     ],
     "checks": [],
     "not_applicable": [],
     "notes": "Technique family: runtime monitoring and sanitizers. Every check runs the real code of /repo (rebuilt from the working tree with -tags verif) and decides with an oracle over observed executions. See DESIGN.md.",
    }
    for pid in ALL:
        c = CHECKS.get(pid)
        if not c:
            m["not_applicable"].append({"property_id": pid, "reason": NOT_YET})
            continue
        m["checks"].append({
          "property_id": pid,
          "quick_cmd": "./run.sh %s quick" % pid,
          "thorough_cmd": "./run.sh %s thorough" % pid,
          "evidence_file": "/verif/evidence/%s.json" % pid,
          "replay_cmd_template": "./run.sh %s --replay {path}" % pid,
          "engine": c.get("engine", "core"),
          "level_claimed": {"category": c["level"], "text": c["text"], "design_ref": c["design"]},
          "level_note": c["note"],
          "technique": c["technique"],
        })
    json.dump(m, open(os.path.join(V, "MANIFEST.json"), "w"), indent=1)
    print("checks:", len(m["checks"]), "not_applicable:", len(m["not_applicable"]))

if __name__ == "__main__":
    main()
