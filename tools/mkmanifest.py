#!/usr/bin/env python3
"""Generates /verif/MANIFEST.json from the table below (one place to edit)."""
import json, os, subprocess
V = os.path.dirname(os.path.dirname(os.path.abspath(__file__)))
ALL = ["C%02d" % i for i in range(1, 21)]

CHECKS = {
 "C10": dict(
  level="exploration", design="§5 C10", engine="refmodel",
  technique="runtime differential monitoring: real trie executions vs content-map oracle; adversarial proof tampering",
  text="Random histories (update/delete/get/commit/reopen, plain and secure tries, prefix-heavy keys) are executed on the real trie; "
       "after each history the canonical-root, lookup, iteration and proof oracles are evaluated against a content map, every proof is "
       "tampered node by node. Held on the executions listed in evidence, nothing more.",
  note="trusted: keccak, ser encoding as black boxes, the 60-line content-map oracle. Known finding: iteration order for prefix-related keys (known_findings.txt)."),
}

NOT_YET = "check not built yet in this commit (see DESIGN.md §5 for the planned monitor)"

def main():
    hooks_commits = []
    try:
        out = subprocess.check_output(["git", "-C", "/repo", "log", "--format=%H %s"], text=True)
        for l in out.splitlines():
            h, s = l.split(" ", 1)
            if s.startswith("verif hooks:"):
                hooks_commits.append(h)
    except Exception:
        pass
    m = {
     "version": 1,
     "setup_cmd": "./run.sh --setup",
     "hooks": {
       "guard": "verif",
       "enable": "go build -tags verif (run.sh builds h/cmd/vcheck with -tags verif against `replace github.com/lianxiangcloud/linkchain => /repo`)",
       "baseline_off_cmd": "./tools/baseline_off.sh",
       "source_commits": hooks_commits,
       "add_only": True,
     },
     "engines": [
       {"name": "core", "path": "h/internal/core", "serves_properties": sorted(CHECKS), "kind_free_text": "child-process case runner, evidence writer, replay, known-findings matcher, race-report parser"},
       {"name": "shim", "path": "shim", "serves_properties": ["C01","C02","C05","C06","C07","C08","C13","C15","C16","C17","C20"], "kind_free_text": "link-time stand-in for libxcrypto (C on libsodium + cgo-exported Go TLV layer) that makes the core packages executable"},
     ],
     "checks": [],
     "not_applicable": [],
     "notes": "Technique family: runtime monitoring and sanitizers. Every check runs the real code of /repo (rebuilt from the working tree with -tags verif) and decides with an oracle over observed executions. See DESIGN.md.",
    }
    for pid in ALL:
        c = CHECKS.get(pid)
        if not c:
            m["not_applicable"].append({"property_id": pid, "reason": NOT_YET})
            continue
        m["checks"].append({
          "property_id": pid,
          "quick_cmd": "./run.sh %s quick" % pid,
          "thorough_cmd": "./run.sh %s thorough" % pid,
          "evidence_file": "/verif/evidence/%s.json" % pid,
          "replay_cmd_template": "./run.sh %s --replay {path}" % pid,
          "engine": c.get("engine", "core"),
          "level_claimed": {"category": c["level"], "text": c["text"], "design_ref": c["design"]},
          "level_note": c["note"],
          "technique": c["technique"],
        })
    json.dump(m, open(os.path.join(V, "MANIFEST.json"), "w"), indent=1)
    print("checks:", len(m["checks"]), "not_applicable:", len(m["not_applicable"]))

if __name__ == "__main__":
    main()
