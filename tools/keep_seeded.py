#!/usr/bin/env python3
"""tools/keep_seeded.py <name> '<caught_by text>' ['<history note>'] : copy /tmp/mut-out/<name> into /verif/seeded/<name>/ with an augmented meta.json"""
import json, os, shutil, sys, glob
n = sys.argv[1]; caught = sys.argv[2]; note = sys.argv[3] if len(sys.argv) > 3 else ""
src = f'/tmp/mut-out/{n}'; dst = f'/verif/seeded/{n}'
os.makedirs(dst, exist_ok=True)
for f in glob.glob(src + '/*'):
    if os.path.isfile(f):
        shutil.copy(f, dst)
m = json.load(open(dst + '/meta.json'))
m['breaks_property'] = m.get('property')
m['origin'] = 'written by an independent sub-agent that was given only the property text and a scratch worktree of /repo (nothing from /verif)'
m['confirmed_by_lead'] = {
  'what_was_run': 'tools/confirm_seeded.sh %s: in the scratch worktree the demonstration was run with the change (exit != 0, violation shown) and with the change reverted by git apply -R (exit 0); the patch compiles against the current tree; the pinned packages it touches were run by the sub-agent (see pinned_tests_run)' % n,
  'result': 'demonstration fails with the change and passes without it',
}
m['checks_run_by_lead'] = 'tools/seedrun.sh %s <ID>: patch applied in a scratch worktree of /repo at main, vcheck built against it (-modfile), quick tier, VERIF_SEED=1' % n
m['caught_by'] = caught
if note:
    m['history'] = note
json.dump(m, open(dst + '/meta.json', 'w'), indent=1)
print('kept', n)
