module verif

go 1.12

replace (
	github.com/NebulousLabs/go-upnp => github.com/lianxiangcloud/go-upnp v0.0.0-20190905032046-65768e0b268c
	github.com/go-interpreter/wagon => github.com/xunleichain/wagon v0.5.3
	github.com/lianxiangcloud/linkchain => /repo
	gopkg.in/sourcemap.v1 => github.com/go-sourcemap/sourcemap v1.0.5
)

require (
	github.com/btcsuite/btcd v0.0.0-20190629003639-c26ffa870fd8
	github.com/golang/snappy v0.0.1
	github.com/lianxiangcloud/linkchain v0.0.0-00010101000000-000000000000
	github.com/syndtr/goleveldb v1.0.0
	github.com/xunleichain/tc-wasm v0.3.5
)
