#!/bin/bash
# run.sh <id> quick|thorough          run one check against /repo's current working tree
# run.sh --setup                      build everything once (used by MANIFEST.setup_cmd)
# run.sh <id> --replay <file>         replay a recorded violation
# Exit: 0 held, 1 violation (VIOLATION line printed), 3 inconclusive.
set -uo pipefail
cd "$(dirname "$0")"
V=$(pwd)
export GOFLAGS=-mod=mod GOPROXY=off GOSUMDB=off GOTOOLCHAIN=local
export CGO_LDFLAGS="-L$V/build/lib"
export VCHECK_RACE_BIN="$V/build/bin/vcheck.race"
export VCHECK_ASAN_BIN="$V/build/bin/vcheck.asan"
mkdir -p build/bin build/scratch evidence

build_libs() {
  if [ ! -f build/lib/libxcrypto.a ] || [ shim/c/xcshim.c -nt build/lib/libxcrypto.a ] || [ shim/c/xcshim_tlvstub.c -nt build/lib/libxcrypto.a ]; then
    ./shim/build.sh >/dev/null || return 1
  fi
}
build_plain() { cp /repo/go.sum go.sum 2>/dev/null; go build -tags verif -o build/bin/vcheck ./h/cmd/vcheck; }
# race builds add the tag "appengine": golang.org/x/crypto@2019 sha3 then uses its generic xor instead of an
# unsafe unaligned cast that trips checkptr (which -race switches on) in third-party code.
build_race()  { go build -race -tags "verif appengine" -o build/bin/vcheck.race ./h/cmd/vcheck; }
build_asan()  { go build -asan -tags verif -o build/bin/vcheck.asan ./h/cmd/vcheck; }

if [ "${1:-}" = "--setup" ]; then
  build_libs || { echo "setup: shim build failed"; exit 1; }
  build_plain || { echo "setup: build failed"; exit 1; }
  build_race || { echo "setup: race build failed"; exit 1; }
  build/bin/vcheck SHIM quick >build/scratch/shim-selftest.log 2>&1 || { cat build/scratch/shim-selftest.log; echo "setup: shim self-test failed"; exit 1; }
  rm -f evidence/SHIM.json
  echo "setup ok"
  exit 0
fi

ID=${1:?usage: run.sh <id> quick|thorough}
shift
build_libs || { echo "INCONCLUSIVE property=$ID reason=shim-build"; exit 3; }
LOG=build/scratch/build-$ID-$$.log
if ! build_plain >"$LOG" 2>&1; then
  echo "INCONCLUSIVE property=$ID reason=build (the tree does not compile with -tags verif)"; tail -30 "$LOG"; rm -f "$LOG"; exit 3
fi
if [ "$(build/bin/vcheck --needs-race "$ID")" = yes ]; then
  if ! build_race >"$LOG" 2>&1; then
    echo "INCONCLUSIVE property=$ID reason=race-build"; tail -30 "$LOG"; rm -f "$LOG"; exit 3
  fi
fi
if [ "$(build/bin/vcheck --needs-asan "$ID")" = yes ]; then
  if ! build_asan >"$LOG" 2>&1; then
    echo "INCONCLUSIVE property=$ID reason=asan-build"; tail -30 "$LOG"; rm -f "$LOG"; exit 3
  fi
fi
rm -f "$LOG"
TIER=${1:-quick}
WD=3600; [ "$TIER" = thorough ] && WD=14400
timeout -s QUIT $WD build/bin/vcheck "$ID" "$@"
rc=$?
if [ $rc -eq 124 ] || [ $rc -eq 131 ]; then
  echo "INCONCLUSIVE property=$ID reason=outer-watchdog"; exit 3
fi
exit $rc
